#!/venv/bin/python
"""Regenerates MANIFEST.json from the property modules present in mc/props (run after adding a check)."""
import importlib, json, os, sys
HERE = os.path.dirname(os.path.abspath(__file__))
sys.path.insert(0, HERE)
sys.path.insert(0, '/repo')
props = [json.loads(l) for l in open(os.path.join(HERE, 'properties.jsonl'))]
NA = {}   # property id -> reason (properties deliberately not claimed)
na_file = os.path.join(HERE, 'not_applicable.json')
if os.path.exists(na_file):
    NA = json.load(open(na_file))
checks, served, na = [], [], []
for p in props:
    pid = p['id']
    path = os.path.join(HERE, 'mc', 'props', pid.lower() + '.py')
    if pid in NA:
        na.append(dict(property_id=pid, reason=NA[pid]))
        continue
    if not os.path.exists(path):
        na.append(dict(property_id=pid, reason="check not built yet (work in progress; DESIGN.md section 4 describes the planned bounded exhaustive exploration)"))
        continue
    m = importlib.import_module('mc.props.' + pid.lower())
    served.append(pid)
    checks.append(dict(
        property_id=pid,
        quick_cmd=f"./check {pid} --tier quick",
        thorough_cmd=f"./check {pid} --tier thorough",
        evidence_file=f"evidence/{pid}.json",
        replay_cmd_template=f"./check {pid} --replay {{path}}",
        engine="mc-engine",
        level_claimed=dict(category=m.LEVEL, text=getattr(m, 'CLAIM', m.RULE), design_ref=f"DESIGN.md section 4, {pid}"),
        level_note="; ".join(m.ASSUMPTIONS) + "; bounds: " + json.dumps(getattr(m, 'BOUNDS', {})),
        technique=getattr(m, 'TECHNIQUE', "bounded exhaustive enumeration of inputs executed on the real code, compared with an independent reference model" if m.LEVEL == 'exploration' else
                          "explicit-state breadth-first search over operation sequences of the real code with canonical-state merging, every transition compared with a reference model")))
man = dict(
    version=1, setup_cmd="./setup.sh",
    hooks=dict(guard="FRAME_VERIF",
               enable="no source hooks are needed: every seam is reachable from outside (DESIGN.md section 2); ./check exports FRAME_VERIF=1 and imports /repo's working tree directly (no build step)",
               baseline_off_cmd="cd /repo && /venv/bin/python -m pytest -ra -q -p no:cacheprovider --timeout=900 --continue-on-collection-errors",
               source_commits=[], add_only=True),
    engines=[dict(name="mc-engine", path="mc/engine.py", serves_properties=served,
                  kind_free_text="hand-written bounded exhaustive explorer: input-space sweeps, explicit-state BFS and environment-answer enumeration over the real FRAME code on 16 forked workers; every violation is re-confirmed in a fresh interpreter before it is reported")],
    checks=checks,
    notes="All checks decide by exhaustive enumeration within the bounds stated in each evidence file (coverage.bounds); known_findings.json lists genuine defects recorded or fixed.",
    not_applicable=na)
json.dump(man, open(os.path.join(HERE, 'MANIFEST.json'), 'w'), indent=1)
print("checks:", served, "not claimed:", [x['property_id'] for x in na])
