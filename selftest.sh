#!/bin/sh
# Runs every quick check on the unchanged tree and validates MANIFEST.json and each evidence file against the schemas.
cd "$(dirname "$0")"
rc=0
for id in $(python3-vt -c "import json;print(' '.join(c['property_id'] for c in json.load(open('MANIFEST.json'))['checks']))"); do
  start=$(date +%s)
  out=$(./check $id --tier ${TIER:-quick} 2>&1 | grep -v '^WARNING'); r=$?
  end=$(date +%s)
  echo "$out" | tail -2 | cut -c1-220
  echo "  -> $id exit=$(echo "$out" | grep -c '^VIOLATION') violation line(s), $((end-start)) s"
  echo "$out" | grep -q '^VIOLATION\|^HARNESS' && rc=1
done
python3-vt - <<'PY' || rc=1
import json, jsonschema, sys
m = json.load(open('MANIFEST.json'))
jsonschema.validate(m, json.load(open('/root/.vp/MANIFEST.schema.json')))
es = json.load(open('/root/.vp/EVIDENCE.schema.json'))
bad = 0
for c in m['checks']:
    try:
        e = json.load(open(c['evidence_file']))
        jsonschema.validate(e, es)
        assert e['level'] == c['level_claimed']['category'], (e['level'], c['level_claimed']['category'])
        assert e['property_id'] == c['property_id']
    except Exception as ex:
        bad += 1
        print('EVIDENCE PROBLEM', c['property_id'], str(ex)[:200])
print('manifest valid;', len(m['checks']), 'evidence files checked;', bad, 'problems')
sys.exit(1 if bad else 0)
PY
exit $rc
