#!/bin/sh
# runs the thorough tier of every check (or of the ids given), one after the other; prints one summary line each
cd "$(dirname "$0")"
ids="${*:-C17 C18 C16 C15 C08 C07 C06 C13 C04 C05 C03 C11 C12 C02 C09 C10 C19 C01 C20 C14}"
for id in $ids; do
  s=$(date +%s)
  ./check $id --tier thorough 2>&1 | grep -v '^WARNING' | grep "^$id tier\|^VIOLATION\|^HARNESS\|^KNOWN" | cut -c1-260
  echo "   ($id thorough took $(( $(date +%s) - s )) s)"
done
