#!/bin/sh
# Offline setup: nothing is compiled or fetched. Verifies that the interpreter and the libraries the
# checks import are present and that /repo is importable from its working tree.
set -e
cd "$(dirname "$0")"
chmod +x check mutcheck.sh 2>/dev/null || true
mkdir -p evidence replays
PYTHONDONTWRITEBYTECODE=1 /venv/bin/python - <<'PY'
import sys
sys.path.insert(0, '/repo')
import frame, tools, ruamel.yaml, numpy, mpmath  # noqa
import pysat.solvers  # noqa
import gekko  # noqa
print('setup ok:', sys.version.split()[0], frame.__path__)
PY
