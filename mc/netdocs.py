"""
Netlist documents for C04 / C05 / C19: an alphabet of module variants and nets, the documents built from
them (as YAML trees), and the definition-level model of each document (what every derived quantity must be).
"""
from __future__ import annotations

import copy
import itertools
import math
from fractions import Fraction as F

STOG2 = [[2, 2, 4, 2], [2, 3.5, 2, 1]]          # trunk + a branch on its north side
NONSTOG = [[2, 2, 4, 2], [9, 9, 1, 1]]

# name -> attribute dict (the YAML node of the module)
VARIANTS = [
    ('s_int', {'area': 4}),
    ('s_ctr', {'area': 2.5, 'center': [1.5, 2]}),
    ('s_dictg', {'area': {'_': 3}}),
    ('s_dsp', {'area': {'dsp': 2.25}}),
    ('s_multi', {'area': {'_': 1.5, 'dsp': 2, 'bram': 0.1}}),
    ('s_ar', {'area': 4, 'aspect_ratio': 2}),
    ('s_ar_inv', {'area': 4, 'aspect_ratio': 0.25}),
    ('s_ar2', {'area': 4, 'aspect_ratio': [0.5, 3], 'center': [0.1, 0.3]}),
    ('s_rect', {'area': 6, 'rectangles': [[1, 1, 2, 2]]}),
    ('s_rect1', {'area': 6, 'rectangles': [1.5, 1, 3, 2]}),
    ('s_rect_reg', {'area': {'_': 4, 'dsp': 2}, 'rectangles': [[1, 1, 2, 2], [2.5, 1, 1, 2, 'dsp']]}),
    ('s_reg_first', {'area': {'_': 2, 'dsp': 4}, 'rectangles': [[1, 1, 2, 2, 'dsp'], [2.5, 1, 1, 2], [1, 2.5, 2, 1]]}),   # named region first
    ('s_twins', {'area': 8, 'rectangles': [[1, 1, 2, 2], [3, 1, 2, 2]]}),          # two equal halves: either can be the trunk
    ('s_exp', {'area': 1e-05, 'center': [1e-05, 2.5e+20]}),
    ('s_ctr_rect', {'area': 6, 'center': [9, 9], 'rectangles': [[1, 1, 2, 2], [3, 1.5, 2, 3]]}),
    ('s_hardfalse', {'area': 3, 'hard': False}),
    ('h_one', {'hard': True, 'rectangles': [[1, 1, 2, 2]]}),
    ('h_stog', {'hard': True, 'rectangles': STOG2}),
    ('h_flip', {'hard': True, 'flip': True, 'rectangles': STOG2}),
    ('h_flipfalse', {'hard': True, 'flip': False, 'rectangles': STOG2}),
    ('h_nonstog', {'hard': True, 'rectangles': NONSTOG}),
    ('f_one', {'fixed': True, 'rectangles': [[0.3, 0.7, 0.2, 0.4]]}),
    ('f_two', {'fixed': True, 'rectangles': STOG2}),
    ('f_flat', {'fixed': True, 'rectangles': [7, 7, 2, 1]}),          # single rectangle in the flat shorthand
    ('h_flat', {'hard': True, 'rectangles': [7.5, 3, 1, 2]}),
    ('h_three', {'hard': True, 'rectangles': [[5, 2, 10, 4], [3, 5, 4, 2], [8, 5, 4, 2]]}),   # trunk + two north branches
    ('t_plain', {'terminal': True}),
    ('t_ctr', {'terminal': True, 'center': [0, 3.5]}),
    ('t_fixed', {'terminal': True, 'fixed': True, 'center': [1, 1]}),
    # explicit 'fixed: false' (the default) in both key orders: in mappings the order of the keys is irrelevant
    ('t_fixedfalse', {'terminal': True, 'fixed': False, 'center': [2, 1]}),
    ('t_falsefixed', {'fixed': False, 'terminal': True, 'center': [2, 1]}),
    ('s_fixedfalse', {'fixed': False, 'area': 3}),
    # decimal coordinates, trunk listed last: recognition moves it to the front, so that a centre accumulated in the
    # listed order and one accumulated in the stored order differ in the last bit
    ('s_trunk_last', {'area': 8, 'rectangles': [[4.1, 2, 1, 2], [1.1, 2, 1, 2], [2.6, 2, 2, 2]]}),
    ('h_trunk_last', {'hard': True, 'rectangles': [[4.1, 2, 1, 2], [1.1, 2, 1, 2], [2.6, 2, 2, 2]]}),
    # ... with sizes written partly as ints and partly as decimals (the area sum depends on the order of accumulation)
    ('s_tl_mixed', {'area': 27.3, 'rectangles': [[1.0, 5.35, 2, 0.7], [5.15, 1.5, 0.3, 3], [2.5, 2.5, 5, 5]]}),
    ('h_tl_mixed', {'hard': True, 'rectangles': [[1.0, 5.35, 2, 0.7], [5.15, 1.5, 0.3, 3], [2.5, 2.5, 5, 5]]}),
    # a centre at the origin (a null vector is still a centre)
    ('s_ctr0', {'area': 2, 'center': [0, 0]}),
    ('t_ctr0', {'terminal': True, 'center': [0.0, 0]}),
    # aspect ratios whose reciprocal is not exactly invertible: 1/(1/0.45) != 0.45 in binary floating point
    ('s_ar_045', {'area': 4, 'aspect_ratio': 0.45}),
    ('s_ar_022i', {'area': 4, 'aspect_ratio': [0.22, 4.545454545454546]}),
]
VIDX = {n: i for i, (n, _) in enumerate(VARIANTS)}
WEIGHTS = [None, 1, 2, 0.5]


def module_names(k):
    return [f'M{i}' for i in range(k)]


def build_doc(variant_idx, nets):
    """variant_idx: tuple of indices into VARIANTS; nets: list of (member positions tuple, weight or None)"""
    names = module_names(len(variant_idx))
    mods = {}
    for nm, vi in zip(names, variant_idx):
        mods[nm] = copy.deepcopy(VARIANTS[vi][1])
    doc = {'Modules': mods}
    nl = []
    for members, w in nets:
        e = [names[i] for i in members]
        if w is not None:
            e.append(w)
        nl.append(e)
    doc['Nets'] = nl
    return doc


def net_sets(k, max_nets):
    """all sets of <= max_nets nets over k modules (pairs and triples, in member order), each with each weight"""
    cands = []
    for arity in (2, 3):
        for members in itertools.combinations(range(k), arity):
            cands.append(members)
    if k >= 2:
        cands.append(tuple(reversed(range(min(k, 3)))))      # a net listing members in reverse order
    out = [[]]
    for members in cands:
        for w in WEIGHTS:
            out.append([(members, w)])
    if max_nets >= 2:
        for a, b in itertools.combinations_with_replacement(cands, 2):
            for wa, wb in ((None, 2), (0.5, None), (2, 0.5)):
                out.append([(a, wa), (b, wb)])
    return out


# ------------------------------------------------------------------ the definition-level model of a document
def rect_model(r, fixed, hard):
    return dict(cx=float(r[0]), cy=float(r[1]), w=float(r[2]), h=float(r[3]), region=(r[4] if len(r) == 5 else '_'),
                fixed=fixed, hard=hard)


def module_model(node):
    terminal = bool(node.get('terminal', False))
    fixed = bool(node.get('fixed', False))
    hard = bool(node.get('hard', False)) or fixed or terminal
    flip = bool(node.get('flip', False))
    rl = node.get('rectangles', [])
    if rl and isinstance(rl[0], (int, float)):
        rl = [rl]
    rects = [rect_model(r, fixed, hard) for r in rl]
    if hard and not terminal:
        area_regions = {'_': math.fsum(r['w'] * r['h'] for r in rects)}
    elif terminal:
        area_regions = {'_': 0.0}          # a terminal has no area (reported as zero ground area)
    else:
        a = node['area']
        area_regions = {'_': float(a)} if isinstance(a, (int, float)) else {k: float(v) for k, v in a.items()}
    centre = None
    if rects:
        A = math.fsum(r['w'] * r['h'] for r in rects)
        centre = (math.fsum(r['w'] * r['h'] * r['cx'] for r in rects) / A,
                  math.fsum(r['w'] * r['h'] * r['cy'] for r in rects) / A)
    elif 'center' in node:
        centre = (float(node['center'][0]), float(node['center'][1]))
    ar = None
    if 'aspect_ratio' in node:
        v = node['aspect_ratio']
        if isinstance(v, (int, float)):
            ar = (float(min(v, 1 / v)), float(max(v, 1 / v)))
        else:
            ar = (float(v[0]), float(v[1]))
    return dict(terminal=terminal, fixed=fixed, hard=hard, soft=not hard, flip=flip, rects=rects,
                area_regions=area_regions, area=math.fsum(area_regions.values()), centre=centre, ar=ar)


def doc_model(doc):
    mods = {n: module_model(node) for n, node in doc['Modules'].items()}
    nets = []
    for e in doc.get('Nets', []):
        if isinstance(e[-1], (int, float)):
            nets.append((list(e[:-1]), float(e[-1])))
        else:
            nets.append((list(e), 1.0))
    return dict(order=list(doc['Modules']), modules=mods, nets=nets)


# ------------------------------------------------------------------ extracting the same model from a loaded Netlist
def loaded_model(n):
    mods = {}
    for m in n.modules:
        rects = [dict(cx=r.center.x, cy=r.center.y, w=r.shape.w, h=r.shape.h, region=r.region, fixed=bool(r.fixed),
                      hard=bool(r.hard)) for r in m.rectangles]
        mods[m.name] = dict(terminal=bool(m.is_terminal), fixed=bool(m.is_fixed), hard=bool(m.is_hard), soft=bool(m.is_soft),
                            flip=bool(m.flip), rects=rects, area_regions=dict(m.area_regions), area=m.area(),
                            centre=(None if m.center is None else (m.center.x, m.center.y)),
                            ar=(None if m.aspect_ratio is None else (m.aspect_ratio.min_wh, m.aspect_ratio.max_wh)),
                            roles=[r.location.name for r in m.rectangles])
    nets = [([b.name for b in e.modules], e.weight) for e in n.edges]
    return dict(order=[m.name for m in n.modules], modules=mods, nets=nets)


def feq(a, b, rel=1e-9):
    if a is None or b is None:
        return a is b
    return abs(a - b) <= rel * max(1.0, abs(a), abs(b))


def compare_models(exp, got, exact=False):
    """-> list of (field, expected, observed); exact=True demands bit-equal numbers (round trip)"""
    diffs = []
    eq = (lambda a, b: a == b) if exact else feq
    if exp['order'] != got['order']:
        diffs.append(('module-order', exp['order'], got['order']))
        return diffs
    for name in exp['order']:
        e, g = exp['modules'][name], got['modules'][name]
        for k in ('terminal', 'fixed', 'hard', 'soft', 'flip'):
            if e[k] != g[k]:
                diffs.append((f'kind.{k}', (name, e[k]), g[k]))
        if set(e['area_regions']) != set(g['area_regions']) or \
                any(not eq(e['area_regions'][r], g['area_regions'][r]) for r in e['area_regions']):
            diffs.append(('area_regions', (name, e['area_regions']), g['area_regions']))
        if not eq(e['area'], g['area']):
            diffs.append(('area', (name, e['area']), g['area']))
        if (e['centre'] is None) != (g['centre'] is None) or \
                (e['centre'] is not None and not (eq(e['centre'][0], g['centre'][0]) and eq(e['centre'][1], g['centre'][1]))):
            diffs.append(('centre', (name, e['centre']), g['centre']))
        if (e['ar'] is None) != (g['ar'] is None) or \
                (e['ar'] is not None and not (eq(e['ar'][0], g['ar'][0]) and eq(e['ar'][1], g['ar'][1]))):
            diffs.append(('aspect_ratio', (name, e['ar']), g['ar']))
        if len(e['rects']) != len(g['rects']):
            diffs.append(('rectangles', (name, len(e['rects'])), len(g['rects'])))
        else:
            # order-insensitive for the geometry (recognition may move the trunk first)
            pool = list(g['rects'])
            for r in e['rects']:
                hit = next((q for q in pool if all(eq(r[k], q[k]) for k in ('cx', 'cy', 'w', 'h')) and
                            r['region'] == q['region'] and r['fixed'] == q['fixed'] and r['hard'] == q['hard']), None)
                if hit is None:
                    diffs.append(('rectangles', (name, r), pool))
                    break
                pool.remove(hit)
    if len(exp['nets']) != len(got['nets']):
        diffs.append(('nets', len(exp['nets']), len(got['nets'])))
    else:
        for (em, ew), (gm, gw) in zip(exp['nets'], got['nets']):
            if em != gm:
                diffs.append(('net-members', em, gm))
            if not eq(ew, gw):
                diffs.append(('net-weight', ew, gw))
    return diffs


def wire_length(model):
    """definition: per net weight * sum of distances from member centres to their mean; None if some centre is undefined"""
    tot = 0.0
    for members, w in model['nets']:
        cs = [model['modules'][m]['centre'] for m in members]
        if any(c is None for c in cs):
            return None
        mx = math.fsum(c[0] for c in cs) / len(cs)
        my = math.fsum(c[1] for c in cs) / len(cs)
        tot += w * math.fsum(math.hypot(c[0] - mx, c[1] - my) for c in cs)
    return tot
