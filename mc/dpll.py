"""A small exhaustive DPLL (unit propagation + chronological branching) used as the CNF evaluator of C07/C08."""
from __future__ import annotations


def solve(clauses, assumptions=()):
    """clauses: list of lists of non-zero ints.  Returns a model dict {var: bool} or None."""
    assign = {}
    for a in assumptions:
        v, val = abs(a), a > 0
        if assign.get(v, val) != val:
            return None
        assign[v] = val
    return _dpll([list(c) for c in clauses], assign)


def _simplify(clauses, assign):
    """unit propagation; returns (clauses, assign) or None on conflict"""
    assign = dict(assign)
    changed = True
    while changed:
        changed = False
        new = []
        for c in clauses:
            sat = False
            rest = []
            for lit in c:
                v = abs(lit)
                if v in assign:
                    if assign[v] == (lit > 0):
                        sat = True
                        break
                else:
                    rest.append(lit)
            if sat:
                continue
            if not rest:
                return None
            if len(rest) == 1:
                assign[abs(rest[0])] = rest[0] > 0
                changed = True
            else:
                new.append(rest)
        clauses = new
    return clauses, assign


def _dpll(clauses, assign):
    r = _simplify(clauses, assign)
    if r is None:
        return None
    clauses, assign = r
    if not clauses:
        return assign
    v = abs(clauses[0][0])
    for val in (True, False):
        a2 = dict(assign)
        a2[v] = val
        m = _dpll(clauses, a2)
        if m is not None:
            return m
    return None


def satisfiable(clauses, assumptions=()):
    return solve(clauses, assumptions) is not None
