"""
Explicit-state BFS over Allocation refinement operations (shared by C02 and C12).

A state is a real frame.allocation.Allocation object together with its exact reference model
(cells with Fraction coordinates, fixed flag, depth, occupancy map).  Transitions call the real
refine / uniform_refinement_depth / griddify; the reference model computes the admissible results
in exact arithmetic.  States are merged on the exact model (sorted cells), which is what all three
operations are functions of (DESIGN.md 3.4).
"""
from __future__ import annotations

import itertools
import signal
from fractions import Fraction as F

from mc.common import FAMILIES, grid_rects, xinter, xarea, center_shape, reset_frame_state
from mc.engine import h64

THRESHOLDS = [0.0, 0.5, 1.0]
ALL_T = [0.0, 0.3, 0.5, 0.7, 1.0]
LEVELS = [1, 2]
# 'release': the fixed flag of the (lowest, leftmost) fixed cell is cleared IN PLACE on the same Allocation object, as a caller
# that releases a module does (tests/frame/allocation set the flag the same way): whatever the object derived from its cells
# before (the state check has just asked must_be_refined for every threshold) must not be stale afterwards
OPS = [('refine', t, L) for t in THRESHOLDS for L in LEVELS] + [('uniform',), ('griddify',), ('release',)]
OPS_QUICK = [('refine', 0.0, 1), ('refine', 0.5, 1), ('refine', 0.5, 2), ('refine', 1.0, 1), ('uniform',), ('griddify',), ('release',)]


def release_in_place(alloc):
    # (on a private deep copy of the object, caches and all: refined allocations share the Rectangle objects of the cells
    #  they did not cut with the allocation they were refined from, and the explorer still holds those)
    import copy
    alloc = copy.deepcopy(alloc)
    for t in ALL_T:
        alloc.must_be_refined(t)
    fx = [a for a in alloc.allocations if a.rect.fixed]
    if fx:
        a = min(fx, key=lambda q: (round(q.rect.center.y - q.rect.shape.h / 2, 9), round(q.rect.center.x - q.rect.shape.w / 2, 9)))
        a.rect.fixed = False
    return alloc

MAPS = [{}, {'A': 0.3}, {'A': 0.7}, {'A': 1.0}, {'A': 0.5, 'B': 0.5}, {'A': 0.3, 'B': 0.7}, {'A': 0.0, 'B': 0.7}]
DEFAULTS = [{'A': 0.5}, {'A': 0.3, 'B': 0.7}]


# ------------------------------------------------------------------ reference model
class Cell:
    __slots__ = ('r', 'fixed', 'depth', 'map')

    def __init__(self, r, fixed, depth, mp):
        self.r, self.fixed, self.depth, self.map = r, fixed, depth, mp

    def key(self):
        return (self.r, self.fixed, self.depth, tuple(sorted(self.map.items())))


def model_key(cells):
    return tuple(sorted(c.key() for c in cells))


def halve(r, axis):
    x0, y0, x1, y1 = r
    if axis == 'x':
        m = (x0 + x1) / 2
        return (x0, y0, m, y1), (m, y0, x1, y1)
    m = (y0 + y1) / 2
    return (x0, y0, x1, m), (x0, m, x1, y1)


def split_variants(c, levels):
    """all admissible results of splitting cell c into 2^levels by repeatedly halving the longer side
    (a square may be halved either way) -> list of lists of Cells"""
    if levels == 0:
        return [[Cell(c.r, c.fixed, c.depth, dict(c.map))]]
    w, h = c.r[2] - c.r[0], c.r[3] - c.r[1]
    axes = ['x'] if w > h else ['y'] if h > w else ['x', 'y']
    out = []
    for ax in axes:
        a, b = halve(c.r, ax)
        ca, cb = Cell(a, c.fixed, c.depth + 1, dict(c.map)), Cell(b, c.fixed, c.depth + 1, dict(c.map))
        for va in split_variants(ca, levels - 1):
            for vb in split_variants(cb, levels - 1):
                out.append(va + vb)
    return out


class SliverAmbiguity(Exception):
    pass


def refinable_at(c, t):
    return (not c.fixed) and len(c.map) > 0 and all(v <= t for v in c.map.values())


def ref_apply(cells, op):
    """-> list (one entry per original cell) of lists of admissible variants for that cell"""
    if op[0] == 'refine':
        _, t, L = op
        return [split_variants(c, L if refinable_at(c, t) else 0) for c in cells]
    if op[0] == 'release':
        fx = [c for c in cells if c.fixed]
        first = min(fx, key=lambda c: (c.r[1], c.r[0])) if fx else None
        return [[[Cell(c.r, c.fixed and c is not first, c.depth, dict(c.map))]] for c in cells]
    if op[0] == 'uniform':
        D = max(c.depth for c in cells)
        return [split_variants(c, 0 if c.fixed else D - c.depth) for c in cells]
    if op[0] == 'griddify':
        xs = sorted({c.r[0] for c in cells} | {c.r[2] for c in cells})
        ys = sorted({c.r[1] for c in cells} | {c.r[3] for c in cells})
        out = []
        for c in cells:
            if c.fixed:
                out.append([[Cell(c.r, True, c.depth, dict(c.map))]])
                continue
            pieces = [(c.r, c.depth)]
            for x in xs[1:-1]:
                nxt = []
                for (r, d) in pieces:
                    if r[0] < x < r[2] and min(x - r[0], r[2] - x) <= F(1, 100) * (r[3] - r[1]):
                        raise SliverAmbiguity()       # the statement exempts this cut: either result is admissible
                    if r[0] < x < r[2] and min(x - r[0], r[2] - x) > F(1, 100) * (r[3] - r[1]):
                        nxt += [((r[0], r[1], x, r[3]), d + 1), ((x, r[1], r[2], r[3]), d + 1)]
                    else:
                        nxt.append((r, d))
                pieces = nxt
            for y in ys[1:-1]:
                nxt = []
                for (r, d) in pieces:
                    if r[1] < y < r[3] and min(y - r[1], r[3] - y) <= F(1, 100) * (r[2] - r[0]):
                        raise SliverAmbiguity()
                    if r[1] < y < r[3] and min(y - r[1], r[3] - y) > F(1, 100) * (r[2] - r[0]):
                        nxt += [((r[0], r[1], r[2], y), d + 1), ((r[0], y, r[2], r[3]), d + 1)]
                    else:
                        nxt.append((r, d))
                pieces = nxt
            out.append([[Cell(r, False, None if len(pieces) > 1 else c.depth, dict(c.map)) for (r, d) in pieces]])
        return out
    raise ValueError(op)


# ------------------------------------------------------------------ real objects
def build_real(cells):
    from frame.allocation.allocation import Allocation
    from frame.geometry.geometry import Rectangle, Point, Shape
    desc = []
    for c in cells:
        cx, cy, w, h = center_shape(c.r)
        R = Rectangle(center=Point(float(cx), float(cy)), shape=Shape(float(w), float(h)), fixed=c.fixed)
        desc.append((R, dict(c.map), c.depth) if c.depth > 0 else (R, dict(c.map)))
    return Allocation(desc)


def real_cells(alloc):
    out = []
    for a in alloc.allocations:
        c, s = a.rect.center, a.rect.shape
        out.append(((c.x - s.w / 2, c.y - s.h / 2, c.x + s.w / 2, c.y + s.h / 2), bool(a.rect.fixed), a.depth,
                    dict(a.alloc), (c.x, c.y, s.w, s.h)))
    return out


def cell_matches(rc, c, tol):
    (r, fixed, depth, mp, cs) = rc
    if fixed != c.fixed or (c.depth is not None and depth != c.depth) or mp != c.map:
        return False
    if any(abs(r[k] - float(c.r[k])) > tol for k in range(4)):
        return False
    cx, cy, w, h = center_shape(c.r)
    return abs(cs[0] - float(cx)) <= tol and abs(cs[1] - float(cy)) <= tol and abs(cs[2] - float(w)) <= tol \
        and abs(cs[3] - float(h)) <= tol


def match_result(real, variants_per_cell, tol):
    """Find, for each original cell, an admissible variant whose cells all appear in the real result, so that
    the real result is exactly the union.  Returns the chosen model cells (list) or None."""
    remaining = list(real)
    chosen = []
    for variants in variants_per_cell:
        found = None
        for var in variants:
            idxs = []
            pool = list(range(len(remaining)))
            ok = True
            for c in var:
                hit = next((i for i in pool if cell_matches(remaining[i], c, tol)), None)
                if hit is None:
                    ok = False
                    break
                pool.remove(hit)
                idxs.append(hit)
            if ok:
                found = (var, idxs)
                break
        if found is None:
            return None
        var, idxs = found
        for c, i in zip(var, idxs):
            if c.depth is None:          # depth not prescribed by the reference (griddify): take the real one
                c.depth = remaining[i][2]
        for i in sorted(idxs, reverse=True):
            remaining.pop(i)
        chosen += var
    if remaining:
        return None
    return chosen


# ------------------------------------------------------------------ initial states
def layouts(nx, ny, kmax):
    """all sets of <=kmax pairwise disjoint index rectangles on an nx x ny cell grid (simplest first)"""
    rects = grid_rects(nx, ny)
    out = []
    for k in range(1, kmax + 1):
        for combo in itertools.combinations(rects, k):
            if all(xinter(tuple(map(F, a)), tuple(map(F, b))) is None for a, b in itertools.combinations(combo, 2)):
                out.append(combo)
    return out


def decorations(k, rich):
    """(maps, depths, fixed_index) vectors for a k-cell layout"""
    out = []
    zero = (0,) * k
    if k <= 2 and rich:
        for mv in itertools.product(range(len(MAPS)), repeat=k):
            out.append((tuple(MAPS[i] for i in mv), zero, None))
    else:
        for dflt in DEFAULTS:
            out.append((tuple(dflt for _ in range(k)), zero, None))
            for i in range(k):
                for m in MAPS:
                    if m != dflt:
                        out.append((tuple(m if j == i else dflt for j in range(k)), zero, None))
    dflt = DEFAULTS[0]
    base = tuple(dflt for _ in range(k))
    for i in range(k):
        for d in (1, 2):
            out.append((base, tuple(d if j == i else 0 for j in range(k)), None))
    if k >= 2:
        out.append((base, tuple([1, 2] + [0] * (k - 2)), None))
        out.append((tuple(MAPS[0] if j == 0 else dflt for j in range(k)), tuple([0, 1] + [0] * (k - 2)), None))
    for i in range(k):
        out.append((base, zero, i))
        out.append((base, tuple(1 if j != i else 0 for j in range(k)), i))
        out.append((tuple(DEFAULTS[1] for _ in range(k)), tuple(2 if j == (i + 1) % k else 0 for j in range(k)), i))
        # a fixed cell that itself records a depth (deeper than, and shallower than, its neighbours)
        out.append((base, tuple(2 if j == i else 0 for j in range(k)), i))
        out.append((base, tuple(1 if j == i else 2 for j in range(k)), i))
    return out


# anisotropic families: very elongated cells next to boundaries close to their ends (the 1% sliver rule of
# griddify compares a piece's thickness with the cell's OTHER side)
_STR = [F(0), F(1, 2), F(64), F(129, 2)]
_D300 = lambda i: F(3001 * i, 10)       # 300.1 steps: non-dyadic coordinates in the hundreds  # noqa
AXIS_FAMILIES = {
    # 'P300': the same explorations after a unit-square allocation was built first in the same interpreter (so the
    # process-wide tolerances were fixed by a design 300..900 times smaller; within the factor 1000 of C20)
    'P300': (_D300, _D300),
    'STRX': (lambda i: _STR[i], lambda j: F(j)),
    'STRY': (lambda i: F(i), lambda j: _STR[j]),
    # a boundary 1 unit from the border of cells 64 .. 192 units tall / wide: whether the cut leaves a piece thinner than
    # 1% of the cell's other side depends on the cuts made before in the other direction
    # allocations of 1e7 units with decimal coordinates: the rounding of a halving exceeds a tolerance that does not
    # grow with the square of the scale
    'B7': (lambda i: [F(0), F(7628044, 10), F(10000000), F(120000003, 10)][i], lambda j: [F(0), F(5000000), F(70000001, 10), F(9000000)][j]),
    # cells of 1-2 units at coordinates around 2e9 (a small block in the far corner of a huge layout): boundaries that a
    # RELATIVE tolerance on coordinates would merge
    'FAR9': (lambda i: F(2000000000) + [F(0), F(1), F(3), F(4)][i], lambda j: F(3000000000) + [F(0), F(2), F(3), F(5)][j]),
    # 1e7-scale layouts whose rounding errors come from a much larger parent cell than the pieces that are compared: a wide
    # cell cut off-centre at the boundaries of small neighbours (B7G), and four halvings of a cell with 3-decimal coordinates (B7D)
    'B7G': (lambda i: [F(0), F(2500007, 10), F(6000001, 10), F(100000001, 10)][i], lambda j: [F(0), F(8000000), F(9000000), F(10000000)][j]),
    'B7D': (lambda i: [F(10505786164, 1000), F(20960818130, 1000), F(230000005, 10)][i], lambda j: [F(0), F(500000), F(7000003, 10)][j]),
    # designs written in metres: cells of a millimetre (areas of 1e-6 and below after refinement) and of a picometre
    'MILLI': (lambda i: F(i, 1000), lambda j: F(j, 1000)),
    'PICO': (lambda i: F(3 * i, 10 ** 12), lambda j: F(2 * j, 10 ** 12)),
    # ... the same with decimal sizes (cells of 300.3 x 50.1 at 1e9: halving them is not exact, neighbours differ by an ulp of 1e9)
    'FAR9D': (lambda i: F(1000000000) + F(3003 * i, 10), lambda j: F(1000000000) + F(501 * j, 10)),
    'SLVX': (lambda i: [F(0), F(1), F(128), F(256)][i], lambda j: [F(0), F(64), F(128), F(192)][j]),
    'SLVY': (lambda i: [F(0), F(64), F(128), F(192)][i], lambda j: [F(0), F(1), F(128), F(256)][j]),
}


# far-from-origin families: the comparison tolerance refers to the cells (a few units; 1e-5 is twenty ulps of the
# coordinates and 1e-5 of a cell), not to the magnitude of the coordinates
FAR_SCALE = 1e4


def fam_axes(fam):
    if fam in AXIS_FAMILIES:
        return AXIS_FAMILIES[fam]
    return FAMILIES[fam], FAMILIES[fam]


def make_cells(fam, layout, deco):
    fx, fy = fam_axes(fam)
    maps, depths, fixed_i = deco
    cells = []
    for j, r in enumerate(layout):
        ex = (fx(r[0]), fy(r[1]), fx(r[2]), fy(r[3]))
        if fixed_i == j:
            cells.append(Cell(ex, True, depths[j], {'F': 1.0}))
        else:
            cells.append(Cell(ex, False, depths[j], dict(maps[j])))
    return cells


def describe_cells(cells):
    return [dict(rect=[str(v) for v in c.r], fixed=c.fixed, depth=c.depth, map=c.map) for c in cells]


def cells_from_desc(desc):
    return [Cell(tuple(F(v) for v in d['rect']), d['fixed'], d['depth'], dict(d['map'])) for d in desc]


# ------------------------------------------------------------------ exploration
OP_TIMEOUT = 20      # seconds


class OperationDoesNotTerminate(Exception):
    pass


class StopShard(Exception):
    pass


def _on_alarm(signum, frame):
    raise OperationDoesNotTerminate(f'no result after {OP_TIMEOUT} s')


signal.signal(signal.SIGALRM, _on_alarm)


def explore(init_cells, depth, on_state, on_transition, res, scale, ops=None, prior=False):
    """BFS from one initial state.  on_state(cells, alloc, hist); on_transition(cells, alloc, op, out|exc, hist)
    must return the model cells of the successor (or None to stop exploring that branch)."""
    tol = 1e-9 * scale
    reset_frame_state()
    if prior:
        from frame.allocation.allocation import Allocation
        Allocation([[[0.5, 0.5, 1, 1], {'P': 0.5}]])
    try:
        a0 = build_real(init_cells)
    except Exception as e:  # noqa - not an accepted allocation: not part of the space
        res.counters['initial-rejected:' + type(e).__name__] += 1
        return
    seen = {model_key(init_cells)}
    res.states.add(h64(model_key(init_cells)))
    frontier = [(init_cells, a0, [])]
    on_state(init_cells, a0, [])
    for lvl in range(depth):
        nxt = []
        for (cells, alloc, hist) in frontier:
            for op in (ops or OPS):
                res.transitions += 1
                try:
                    signal.alarm(OP_TIMEOUT)          # an operation takes milliseconds: this only fires on a livelock
                    if op[0] == 'refine':
                        out = alloc.refine(op[1], op[2])
                    elif op[0] == 'release':
                        out = release_in_place(alloc)
                    elif op[0] == 'uniform':
                        out = alloc.uniform_refinement_depth()
                    else:
                        out = alloc.griddify()
                    exc = None
                except Exception as e:  # noqa
                    out, exc = None, e
                finally:
                    signal.alarm(0)
                h2 = hist + [list(op)]
                succ = on_transition(cells, alloc, op, out, exc, h2, tol)
                if isinstance(exc, OperationDoesNotTerminate):
                    raise StopShard()      # reported; do not wait for the same livelock thousands of times
                if lvl == depth - 1:
                    res.traces += 1
                if succ is None or out is None:
                    continue
                k = model_key(succ)
                if k in seen:
                    continue
                seen.add(k)
                res.states.add(h64(k))
                on_state(succ, out, h2)
                nxt.append((succ, out, h2))
        frontier = nxt


def replay_history(init_desc, fam_scale, hist):
    """re-execute an operation sequence from an initial state on fresh objects; returns list of (cells, alloc)"""
    cells = cells_from_desc(init_desc)
    reset_frame_state()
    alloc = build_real(cells)
    return cells, alloc


def shard_plan(tier):
    """list of shard descriptors: (family, grid, layout index range)"""
    out = []
    if tier == 'quick':
        plan = [('HALF', 3, 2, 3, True), ('DEC1', 2, 3, 2, False), ('STRX', 3, 2, 2, False), ('STRY', 2, 3, 2, False), ('P300', 3, 2, 2, False), ('B7', 3, 2, 2, False),
                ('SLVX', 3, 3, 3, False), ('SLVY', 3, 3, 3, False), ('FAR9', 3, 2, 2, False), ('B7G', 3, 3, 3, False), ('B7D', 2, 2, 2, False),
                ('MILLI', 2, 2, 2, False), ('PICO', 2, 2, 2, False), ('FAR9D', 2, 2, 2, False)]
    else:
        # depth 2 with all 8 operations on the larger plan; depth 3 (6 operations) on the small plan marked deep=True
        plan = [('HALF', 3, 2, 3, True), ('DEC1', 3, 2, 3, True), ('DEC3', 2, 3, 3, False), ('STRX', 3, 2, 3, False), ('STRY', 2, 3, 3, False),
                ('P300', 3, 2, 3, False), ('DEC7', 4, 1, 4, False), ('HALF', 2, 2, 2, 'deep'), ('DEC1', 2, 1, 2, 'deep'), ('B7', 3, 2, 3, False),
                ('SLVX', 3, 3, 3, False), ('SLVY', 3, 3, 3, False), ('FAR9', 3, 2, 3, False), ('FAR9', 2, 3, 3, False), ('B7G', 3, 3, 3, False), ('B7D', 2, 2, 3, False), ('MILLI', 3, 2, 3, False), ('PICO', 2, 2, 3, False), ('FAR9D', 3, 2, 3, False)]
    for (fam, nx, ny, kmax, rich) in plan:
        n = len(layouts(nx, ny, kmax))
        step = 4 if not (fam.startswith('SLV') or fam == 'B7G') else 48
        for lo in range(0, n, step):
            out.append(dict(fam=fam, nx=nx, ny=ny, kmax=kmax, rich=(rich is True), deep=(rich == 'deep'), lo=lo, hi=min(n, lo + step),
                            gridonly=(fam.startswith('SLV') or fam == 'B7G')))
    return out


_LAYOUT_CACHE = {}


def shard_states(shard):
    key = (shard['nx'], shard['ny'], shard['kmax'])
    if key not in _LAYOUT_CACHE:
        _LAYOUT_CACHE[key] = layouts(*key)
    lays = _LAYOUT_CACHE[key][shard['lo']:shard['hi']]
    for lay in lays:
        for deco in decorations(len(lay), shard['rich']):
            yield make_cells(shard['fam'], lay, deco)


# ------------------------------------------------------------------ oracles
class Checker:
    """mode 'C02': conservation invariants checked directly on the real input/output of every transition.
       mode 'C12': decisions and results compared with the exact reference model."""

    def __init__(self, mode, res, fam, init_cells):
        self.mode, self.res, self.fam = mode, res, fam
        self.init = describe_cells(init_cells)

    def case(self, hist):
        return dict(fam=self.fam, init=self.init, hist=hist)

    def attrs(self, cells, op=None):
        xs = {c.r[0] for c in cells} | {c.r[2] for c in cells}
        ys = {c.r[1] for c in cells} | {c.r[3] for c in cells}
        a = dict(fam=self.fam, has_fixed=any(c.fixed for c in cells), has_empty=any(len(c.map) == 0 for c in cells),
                 nx_ne_ny=len(xs) != len(ys))
        if op is not None:
            a['op'] = op[0]
            if op[0] == 'refine':
                a['t'] = op[1]
        return a

    # ---- per state
    def on_state(self, cells, alloc, hist):
        if self.mode != 'C12':
            return
        for t in ALL_T:
            self.res.traces += 0
            try:
                got = alloc.must_be_refined(t)
            except Exception as e:  # noqa
                self.res.violation('must_be_refined-raises', self.case(hist + [['must_be_refined', t]]),
                                   self.attrs(cells), 'a boolean', f'{type(e).__name__}: {e}')
                continue
            want = any(refinable_at(c, t) for c in cells)
            if bool(got) != want:
                self.res.violation('predicate-vs-change', self.case(hist + [['must_be_refined', t]]),
                                   dict(self.attrs(cells), t=t, got=bool(got)),
                                   f'must_be_refined({t}) == {want} (refine({t}) {"changes" if want else "does not change"} the allocation)',
                                   got)

    # ---- per transition
    def on_transition(self, cells, alloc, op, out, exc, hist, tol):
        res = self.res
        at = self.attrs(cells, op)
        if exc is not None:
            res.violation('raises', self.case(hist), dict(at, exc=type(exc).__name__), 'the operation succeeds',
                          f'{type(exc).__name__}: {exc}')
            return None
        try:
            variants = ref_apply(cells, op)
        except SliverAmbiguity:
            # the exact reference does not prescribe the result (an exempted cut is involved): judge the stated outcome
            res.counters['ambiguous:sliver-cut'] += 1
            real = real_cells(out)
            if self.mode == 'C12':
                self.grid_postcondition(real, hist, at, tol)
            else:
                self.conservation(alloc, out, real, hist, at, tol)
            return None
        real = real_cells(out)
        succ = match_result(real, variants, tol)
        if self.mode == 'C12':
            if succ is None and op[0] == 'uniform':
                # the statement only fixes the outcome of uniform refinement: every refinable cell ends at the former
                # maximum depth and cells already there stay as they were (how a cell is cut is C02's business)
                D = max(c.depth for c in cells)
                keep = [c for c in cells if c.fixed or c.depth == D]
                ok = all(rc[1] or rc[2] == D for rc in real) and \
                    all(any(cell_matches(rc, c, tol) for rc in real) for c in keep)
                if ok:
                    res.counters['uniform-accepted-by-postcondition'] += 1
                    return None
            if succ is None:
                exp = [[describe_cells(v) for v in vs][0] for vs in variants]
                res.violation(op[0] + '-exact', self.case(hist), at, exp,
                              [dict(rect=[round(x, 9) for x in rc[0]], fixed=rc[1], depth=rc[2], map=rc[3]) for rc in real])
            # the real predicate agrees with what the real operation just did
            if op[0] == 'refine' and succ is not None:
                changed = model_key(succ) != model_key(cells)
                try:
                    pred = bool(alloc.must_be_refined(op[1]))
                    if pred != changed:
                        res.violation('predicate-vs-change', self.case(hist), dict(at, got=pred),
                                      f'must_be_refined == {changed}', pred)
                except Exception:  # noqa  (reported by on_state)
                    pass
            return succ
        self.conservation(alloc, out, real, hist, at, tol)
        return succ

    def conservation(self, alloc, out, real, hist, at, tol):
        res = self.res
        # ---------------- C02: conservation, checked on the real objects
        before = real_cells(alloc)
        s2 = tol * tol * 1e9 if tol > 0 else 0.0      # area tolerance: 1e-9 * scale^2
        # (1) pairwise interior-disjoint
        for (a, b) in itertools.combinations(real, 2):
            ox = min(a[0][2], b[0][2]) - max(a[0][0], b[0][0])
            oy = min(a[0][3], b[0][3]) - max(a[0][1], b[0][1])
            if ox > tol and oy > tol:
                res.violation('overlap', self.case(hist), at, 'pairwise disjoint cells', [list(a[0]), list(b[0])])
                break
        # (2) every new cell inside exactly one old cell, with that cell's map; (3) the pieces fill the old cell
        fill = [0.0] * len(before)
        for rc in real:
            owners = [i for i, bc in enumerate(before)
                      if rc[0][0] >= bc[0][0] - tol and rc[0][1] >= bc[0][1] - tol and
                      rc[0][2] <= bc[0][2] + tol and rc[0][3] <= bc[0][3] + tol]
            if len(owners) != 1:
                res.violation('tiling', self.case(hist), at, 'each new cell inside exactly one old cell',
                              dict(cell=list(rc[0]), owners=len(owners)))
                continue
            i = owners[0]
            fill[i] += (rc[0][2] - rc[0][0]) * (rc[0][3] - rc[0][1])
            if rc[3] != before[i][3]:
                res.violation('inherit', self.case(hist), at, before[i][3], rc[3])
            # (the 'release' operation is the caller clearing the flag itself: the cell must be the same, not still flagged)
            if before[i][1] and (rc[4] != before[i][4] or (not rc[1] and at.get('op') != 'release')):
                res.violation('fixed-cut', self.case(hist), at, f'fixed cell {list(before[i][0])} unchanged',
                              dict(cell=list(rc[0]), fixed=rc[1]))
        for i, bc in enumerate(before):
            area = (bc[0][2] - bc[0][0]) * (bc[0][3] - bc[0][1])
            if abs(fill[i] - area) > s2 + 1e-12 * area:
                res.violation('tiling', self.case(hist), at, f'cell {list(bc[0])} of area {area} exactly covered',
                              f'covered area {fill[i]}')
        # (3b) every cell owns its occupancy map: updating the ratios of one cell in place (as the optimiser's extraction does)
        #      must not change a sibling cut from the same parent, nor the allocation that was refined
        if out is not alloc:
            ids_out = [id(a.alloc) for a in out.allocations]
            ids_in = {id(a.alloc) for a in alloc.allocations}
            if len(set(ids_out)) != len(ids_out) or ids_in & set(ids_out):
                res.violation('aliased-maps', self.case(hist), at, 'one occupancy map object per cell',
                              'cells of the result share a map object with each other or with the refined allocation')
        # (4) module area and centre of mass
        mods = sorted({m for bc in before for m in bc[3]})
        for m in mods:
            try:
                a0, a1 = alloc.area(m), out.area(m)
                c0, c1 = alloc.center(m), out.center(m)
            except Exception as e:  # noqa
                res.violation('area', self.case(hist), at, f'area/center of {m} defined', f'{type(e).__name__}: {e}')
                continue
            if abs(a0 - a1) > 1e-9 * max(abs(a0), 1e-300):
                res.violation('area', self.case(hist), dict(at, module=m), a0, a1)
            sc = tol / 1e-9
            if abs(c0.x - c1.x) > 1e-9 * sc or abs(c0.y - c1.y) > 1e-9 * sc:
                res.violation('centroid', self.case(hist), dict(at, module=m), [c0.x, c0.y], [c1.x, c1.y])
        if sorted(mods) != sorted({m for rc in real for m in rc[3]}):
            res.violation('inherit', self.case(hist), at, mods, sorted({m for rc in real for m in rc[3]}))
        # ... and of the set of all modules (a cluster): the area-weighted mean of the single centres, before and after
        if len(mods) >= 2:
            try:
                A1 = out.area(mods)
                C1, C0 = out.center(mods), alloc.center(mods)
                ex = sum(out.center(m).x * out.area(m) for m in mods) / sum(out.area(m) for m in mods)
                ey = sum(out.center(m).y * out.area(m) for m in mods) / sum(out.area(m) for m in mods)
                sc = tol / 1e-9
                if abs(C1.x - ex) > 1e-9 * sc or abs(C1.y - ey) > 1e-9 * sc or abs(C0.x - C1.x) > 1e-9 * sc or abs(C0.y - C1.y) > 1e-9 * sc \
                        or abs(A1 - sum(out.area(m) for m in mods)) > 1e-9 * max(abs(A1), 1e-300):
                    res.violation('centroid', self.case(hist), dict(at, module='cluster'), [ex, ey], [C1.x, C1.y, C0.x, C0.y])
            except Exception as e:  # noqa
                res.violation('area', self.case(hist), at, 'area/center of the set of all modules defined', f'{type(e).__name__}: {e}')

    def grid_postcondition(self, real, hist, at, tol):
        """the stated outcome of grid refinement, judged on the real result: no refinable cell is crossed by a boundary line
        of any cell, except where the cut would leave a piece thinner than 1% of the cell's other side"""
        xs = sorted({rc[0][0] for rc in real} | {rc[0][2] for rc in real})
        ys = sorted({rc[0][1] for rc in real} | {rc[0][3] for rc in real})
        for rc in real:
            if rc[1]:
                continue
            x0, y0, x1, y1 = rc[0]
            for (lines, lo, hi, other, axis) in ((xs, x0, x1, y1 - y0, 'x'), (ys, y0, y1, x1 - x0, 'y')):
                for v in lines:
                    if lo + tol < v < hi - tol:
                        piece = min(v - lo, hi - v)
                        if piece > 0.01 * other * (1 + 1e-6) + tol:
                            self.res.violation('grid-crossed', self.case(hist), dict(at, axis=axis),
                                               f'cell {[round(q, 9) for q in rc[0]]} cut at {axis}={v} (piece {piece} is not thinner than 1% of {other})',
                                               'the cell is left crossed by that line')
                            return

def run_shard_common(mode, shard, tier, res):
    depth = 3 if shard.get('deep') else 2
    fam = shard['fam']
    fx, fy = fam_axes(fam)
    scale = float(max(fx(shard['nx']), fy(shard['ny'])))
    if fam.startswith('FAR'):
        scale = FAR_SCALE
    n0 = 0
    first = None
    for cells in shard_states(shard):
        ck = Checker(mode, res, fam, cells)
        t_before = res.transitions
        ops = [('griddify',)] if shard.get('gridonly') else OPS_QUICK if (tier == 'quick' or shard.get('deep')) else OPS
        try:
            explore(cells, depth, ck.on_state, ck.on_transition, res, scale, ops, prior=fam.startswith('P'))
        except StopShard:
            break
        if res.transitions > t_before:
            n0 += 1
            if first is None:
                first = dict(fam=fam, init=describe_cells(cells), ops=[list(o) for o in (OPS_QUICK if tier == 'quick' else OPS)])
    res.evaluations += res.transitions
    res.nontrivial = len(res.states)
    res.outcomes['transition-ok'] = res.transitions - res.nviol
    if res.nviol:
        res.outcomes['transition-violating'] = res.nviol
    res.counters['initial_states'] += n0
    if first:
        res.samples.append(first)


def check_case_common(mode, case, res):
    """replay: initial state + operation history, every step checked"""
    fam = case['fam']
    cells = cells_from_desc(case['init'])
    scale = float(max(max(c.r[2], c.r[3]) for c in cells))
    if fam.startswith('FAR'):
        scale = FAR_SCALE
    tol = 1e-9 * scale
    reset_frame_state()
    if fam.startswith('P'):
        from frame.allocation.allocation import Allocation
        Allocation([[[0.5, 0.5, 1, 1], {'P': 0.5}]])
    alloc = build_real(cells)
    ck = Checker(mode, res, fam, cells)
    hist = []
    ck.on_state(cells, alloc, [])
    for op in case['hist']:
        op = tuple(op)
        if op[0] == 'must_be_refined':
            break
        try:
            signal.alarm(OP_TIMEOUT)
            out = alloc.refine(op[1], op[2]) if op[0] == 'refine' else release_in_place(alloc) if op[0] == 'release' else \
                alloc.uniform_refinement_depth() if op[0] == 'uniform' else alloc.griddify()
            exc = None
        except Exception as e:  # noqa
            out, exc = None, e
        finally:
            signal.alarm(0)
        hist = hist + [list(op)]
        succ = ck.on_transition(cells, alloc, op, out, exc, hist, tol)
        if succ is None or out is None:
            break
        cells, alloc = succ, out
        ck.on_state(cells, alloc, hist)
