"""
Bounded exhaustive exploration engine for the FRAME property checks.

A property module (mc/props/cXX.py) provides

    ID, LEVEL ('exploration' | 'model_checking'), RULE, ASSUMPTIONS
    shards(tier)              -> list of JSON-able shard descriptors (simplest first)
    run_shard(shard, tier)    -> ShardResult (see below)
    replay(case)              -> list of violations for ONE case (fresh interpreter)

The engine runs all shards on a pool of forked workers, aggregates the counts,
triages violations against /verif/known_findings.json, confirms every fresh
violation in a *new interpreter* (so a report never depends on what a worker
executed before), writes replay files and the evidence file, prints the
interface lines and returns the exit code.

Nothing here samples: every shard is executed completely unless VERIF_TIME_CAP
(seconds) is set and hit, in which case the evidence says exhaustive=false and
names the cap.
"""
from __future__ import annotations

import collections
import hashlib
import importlib
import json
import multiprocessing as mp
import os
import shutil
import subprocess
import sys
import tempfile
import time
import traceback

VERIF = os.path.dirname(os.path.dirname(os.path.abspath(__file__)))
OUT = VERIF   # evidence/ and replays/ go here; redirected for runs against a scratch copy (--repo)
PY = sys.executable


# --------------------------------------------------------------------------
# shard results
# --------------------------------------------------------------------------
class ShardResult:
    """Accumulator filled by run_shard."""

    MAX_VIOL = 40      # violations kept per shard (all are counted)
    MAX_SAMPLES = 3

    def __init__(self):
        self.evaluations = 0
        self.nontrivial = 0
        self.outcomes = collections.Counter()
        self.counters = collections.Counter()
        self.violations = []
        self.nviol = 0
        self.samples = []
        # model-checking style counts
        self.states = set()          # 64-bit hashes of canonical states
        self.transitions = 0
        self.traces = 0

    def case(self, outcome: str, nontrivial: bool = True, sample=None):
        self.evaluations += 1
        if nontrivial:
            self.nontrivial += 1
        self.outcomes[outcome] += 1
        if sample is not None and len(self.samples) < self.MAX_SAMPLES:
            self.samples.append(sample)

    def violation(self, clause: str, case, attrs=None, expected=None, observed=None, note=None):
        self.nviol += 1
        self.counters['viol:' + clause] += 1
        if len(self.violations) < self.MAX_VIOL or \
                not any(v['clause'] == clause and v['attrs'] == (attrs or {}) for v in self.violations):
            self.violations.append(dict(clause=clause, case=case, attrs=attrs or {},
                                        expected=_j(expected), observed=_j(observed), note=note))

    def pack(self):
        return dict(evaluations=self.evaluations, nontrivial=self.nontrivial,
                    outcomes=dict(self.outcomes), counters=dict(self.counters),
                    violations=self.violations, nviol=self.nviol, samples=self.samples,
                    states=self.states, transitions=self.transitions, traces=self.traces)


def _j(x):
    """Make something JSON-able for reports."""
    try:
        json.dumps(x)
        return x
    except Exception:
        return repr(x)


def h64(obj) -> int:
    """Stable 64-bit hash of a canonical (repr-able) state."""
    return int.from_bytes(hashlib.blake2b(repr(obj).encode(), digest_size=8).digest(), 'big')


# --------------------------------------------------------------------------
# binding to the repository under test
# --------------------------------------------------------------------------
_BOUND = {'repo': None}


def bind_repo(repo: str):
    repo = os.path.abspath(repo)
    _BOUND['repo'] = repo
    if sys.path[0] != repo:
        sys.path.insert(0, repo)
    os.environ.setdefault('PYTHONDONTWRITEBYTECODE', '1')
    sys.dont_write_bytecode = True
    import frame
    import tools
    for mod in (frame, tools):
        where = os.path.abspath(os.path.dirname(list(mod.__path__)[0] if not getattr(mod, '__file__', None)
                                                else mod.__file__))
        assert where.startswith(repo), f"{mod.__name__} imported from {where}, not from {repo}"
    return repo


# --------------------------------------------------------------------------
# worker side
# --------------------------------------------------------------------------
_W = {}


def _worker_init(prop_name, repo, tier, scratch_root, quiet):
    if quiet:
        devnull = os.open(os.devnull, os.O_WRONLY)
        os.dup2(devnull, 1)
        os.dup2(devnull, 2)
    d = tempfile.mkdtemp(prefix=f'w{os.getpid()}.', dir=scratch_root)
    os.environ['TMPDIR'] = d
    tempfile.tempdir = d
    _W['scratch'] = d
    bind_repo(repo)
    _W['mod'] = importlib.import_module(f'mc.props.{prop_name}')
    _W['tier'] = tier


def frame_under_test(exc):
    """'function (file:line)' of the innermost traceback frame that belongs to the code under test, provided no harness
    frame lies deeper (i.e. the library raised and the harness did not expect it); None when the harness itself raised"""
    repo = _BOUND['repo']
    if not repo:
        return None
    harness = os.path.join(VERIF, 'mc')
    for fr in reversed(traceback.extract_tb(exc.__traceback__)):
        fn = os.path.abspath(fr.filename)
        if fn.startswith(harness + os.sep):
            return None
        if fn.startswith(repo + os.sep):
            return f"{fr.name} ({os.path.relpath(fn, repo)}:{fr.lineno})"
    return None


def run_shard_guarded(mod, shard, tier, res):
    """run_shard; an exception that escapes from the code under test in an operation the harness took for valid is a
    verdict about that code (the operation does not complete), not a failure of the harness"""
    try:
        mod.run_shard(shard, tier, res)
    except Exception as e:  # noqa
        where = frame_under_test(e)
        if where is None:
            raise
        res.violation('unexpected-exception', dict(whole_shard=True, shard=shard), dict(exc=type(e).__name__, where=where.split(' (')[0]),
                      'the operation completes', f'{type(e).__name__}: {e} in {where}')


def _worker_run(args):
    idx, shard = args
    t0 = time.time()
    try:
        res = ShardResult()
        run_shard_guarded(_W['mod'], shard, _W['tier'], res)
        out = res.pack()
        for v in out['violations']:
            v['shard'] = shard
        out['error'] = None
    except BaseException:
        out = ShardResult().pack()
        out['error'] = traceback.format_exc()
    out['idx'] = idx
    out['wall'] = time.time() - t0
    # keep the scratch dir small
    d = _W.get('scratch')
    if d:
        for name in os.listdir(d):
            p = os.path.join(d, name)
            try:
                shutil.rmtree(p) if os.path.isdir(p) else os.unlink(p)
            except OSError:
                pass
    return out


# --------------------------------------------------------------------------
# known findings
# --------------------------------------------------------------------------
def load_known(pid):
    path = os.path.join(VERIF, 'known_findings.json')
    if not os.path.exists(path):
        return []
    with open(path) as f:
        data = json.load(f)
    return [e for e in data.get('findings', []) if e.get('property') == pid and not e.get('fixed')]


def match_known(v, known):
    for e in known:
        if e.get('clause') != v['clause']:
            continue
        if all(v['attrs'].get(k) == val for k, val in e.get('match', {}).items()):
            return e
    return None


# --------------------------------------------------------------------------
# main driver
# --------------------------------------------------------------------------
DEFAULT_PRELOAD = ['frame.geometry.geometry', 'frame.netlist.netlist', 'frame.die.die', 'frame.allocation.allocation',
                   'ruamel.yaml', 'mc.common']


def scratch_root():
    for base in ('/dev/shm', '/var/tmp'):
        if os.path.isdir(base) and os.access(base, os.W_OK):
            return tempfile.mkdtemp(prefix='frame-verif.', dir=base)
    return tempfile.mkdtemp(prefix='frame-verif.')


def run_check(prop_name: str, tier: str, repo: str, jobs: int, seed: int, verbose=False) -> int:
    global OUT
    t0 = time.time()
    repo = bind_repo(repo)
    if repo != '/repo':
        OUT = os.path.join(repo, '.verif-out')
    mod = importlib.import_module(f'mc.props.{prop_name}')
    pid = mod.ID
    shards = list(mod.shards(tier))
    nshards = len(shards)
    order = list(range(nshards))
    if seed and nshards:
        k = seed % nshards
        order = order[k:] + order[:k]       # rotation only: the set of shards is seed-independent
    cap = float(os.environ.get('VERIF_TIME_CAP', '0') or 0)
    root = scratch_root()
    agg = ShardResult()
    agg.violations = []
    errors = []
    done = 0
    capped = False
    shard_walls = []
    try:
        ctx = mp.get_context('fork')
        nproc = max(1, min(jobs, nshards))
        # Every shard runs in a freshly forked child of this (pristine) process: no state leaks from one shard
        # to the next, so whatever a shard observes is reproducible by replaying that shard alone.  Heavy
        # imports are done once here, before forking (importing executes no FRAME operation).
        for name in getattr(mod, 'PRELOAD', DEFAULT_PRELOAD):
            try:
                importlib.import_module(name)
            except Exception:  # noqa
                pass
        with ctx.Pool(nproc, initializer=_worker_init, maxtasksperchild=1,
                      initargs=(prop_name, repo, tier, root, not verbose)) as pool:
            it = pool.imap_unordered(_worker_run, [(i, shards[i]) for i in order], chunksize=1)
            for out in it:
                done += 1
                shard_walls.append(out['wall'])
                if out['error']:
                    errors.append((out['idx'], out['error']))
                agg.evaluations += out['evaluations']
                agg.nontrivial += out['nontrivial']
                agg.outcomes.update(out['outcomes'])
                agg.counters.update(out['counters'])
                agg.nviol += out['nviol']
                agg.violations.extend(out['violations'])
                agg.states |= out['states']
                agg.transitions += out['transitions']
                agg.traces += out['traces']
                for s in out['samples']:
                    if len(agg.samples) < 6:
                        agg.samples.append(s)
                if cap and time.time() - t0 > cap:
                    capped = True
                    pool.terminate()
                    break
    finally:
        shutil.rmtree(root, ignore_errors=True)

    if errors:
        # A crash of the harness itself is not a verdict about FRAME.
        print(f"HARNESS-ERROR property={pid} shard={errors[0][0]}\n{errors[0][1]}", file=sys.stderr)
        return 2

    # ---------------- triage of violations ----------------
    known = load_known(pid)
    hit_known = collections.OrderedDict()
    fresh = []
    for v in agg.violations:
        e = match_known(v, known)
        if e is not None:
            hit_known.setdefault(e['id'], [e, 0])[1] += 1
        else:
            fresh.append(v)

    # distinct signatures, simplest first (shards and cases are generated simplest-first)
    sigs = collections.OrderedDict()
    for v in fresh:
        sigs.setdefault((v['clause'], json.dumps(v['attrs'], sort_keys=True)), v)
    reported = []
    nondeterministic = []
    shutil.rmtree(os.path.join(OUT, 'replays', pid), ignore_errors=True)   # replay files of an earlier run are stale
    for n, (sig, v) in enumerate(list(sigs.items())[:8], 1):
        ok, detail = confirm_in_fresh_process(prop_name, repo, v, tier)
        if ok:
            path = write_replay(pid, n, v, detail, repo, tier)
            reported.append(path)
        else:
            nondeterministic.append((v, detail))

    for eid, (e, cnt) in hit_known.items():
        print(f"KNOWN-FINDING: property={pid} {e['what']} [{eid}; {cnt} case(s) this run]")

    wall = time.time() - t0
    write_evidence(mod, tier, seed, agg, nshards, done, capped, cap, wall, len(fresh), hit_known, shard_walls)

    nstates = len(agg.states)
    print(f"{pid} tier={tier} shards={done}/{nshards} evaluations={agg.evaluations} "
          f"nontrivial={agg.nontrivial} states={nstates} transitions={agg.transitions} "
          f"outcomes={len(agg.outcomes)} violations={len(fresh)} known={sum(c for _, c in hit_known.values())} "
          f"wall={wall:.1f}s" + (" CAPPED" if capped else ""))
    if nondeterministic and not reported:
        v, detail = nondeterministic[0]
        print(f"HARNESS-NONDETERMINISM property={pid} clause={v['clause']} case={json.dumps(v['case'])[:400]} "
              f"fresh-process replay said: {detail}", file=sys.stderr)
        return 2
    if reported:
        for p in reported:
            print(f"VIOLATION property={pid} replay={p}")
        return 1
    return 0


def confirm_in_fresh_process(prop_name, repo, v, tier='quick'):
    """Re-execute the failing case in a new interpreter; it must fail with the same clause.
    First the single case alone; if that does not reproduce, the whole (deterministic) shard that led to it:
    a violation that needs the preceding cases of its shard is a history-dependent defect of the code under
    test, and is reported as such (v['history_dependent'] = True) only if the shard replay reproduces it."""
    def run(doc):
        with tempfile.NamedTemporaryFile('w', suffix='.json', delete=False, dir='/dev/shm'
                                         if os.path.isdir('/dev/shm') else None) as f:
            json.dump(doc, f)
            path = f.name
        try:
            env = dict(os.environ, PYTHONHASHSEED='0', PYTHONDONTWRITEBYTECODE='1')
            p = subprocess.run([PY, os.path.join(VERIF, 'mc', 'main.py'), prop_name, '--replay', path,
                                '--repo', repo, '--json'], capture_output=True, text=True, env=env, timeout=7200)
            try:
                return json.loads(p.stdout.strip().splitlines()[-1]), None
            except Exception:
                return None, f"replay produced no verdict (rc={p.returncode}): {p.stdout[-300:]} {p.stderr[-300:]}"
        finally:
            os.unlink(path)

    res, err = run(dict(case=v['case'], clause=v['clause']))
    if res is not None and v['clause'] in [x['clause'] for x in res]:
        return True, [x for x in res if x['clause'] == v['clause']][0]
    first = err or f"clauses in fresh process: {[x['clause'] for x in res]}"
    if v.get('shard') is not None:
        res2, err2 = run(dict(case=v['case'], clause=v['clause'], shard=v['shard'], tier=tier, history_dependent=True))
        if res2 is not None and v['clause'] in [x['clause'] for x in res2]:
            v['history_dependent'] = True
            d = [x for x in res2 if x['clause'] == v['clause']][0]
            d['history_dependent'] = 'reproduces only after the preceding cases of its shard (replayed in a fresh interpreter)'
            return True, d
        first += f"; shard replay: {err2 or [x['clause'] for x in (res2 or [])]}"
    return False, first


def write_replay(pid, n, v, detail, repo, tier='quick'):
    d = os.path.join(OUT, 'replays', pid)
    os.makedirs(d, exist_ok=True)
    path = os.path.join(d, f'{n}.json')
    with open(path, 'w') as f:
        json.dump(dict(property=pid, clause=v['clause'], attrs=v['attrs'], case=v['case'],
                       shard=v.get('shard'), tier=tier, history_dependent=bool(v.get('history_dependent')),
                       expected=v.get('expected'), observed=v.get('observed'), note=v.get('note'),
                       confirmed_in_fresh_process=detail,
                       how_to_replay=f"cd /verif && ./check {pid} --replay {os.path.relpath(path, VERIF)}"),
                  f, indent=1, default=repr)
    return os.path.relpath(path, VERIF) if OUT == VERIF else path


def write_evidence(mod, tier, seed, agg, nshards, done, capped, cap, wall, nfresh, hit_known, shard_walls):
    level = mod.LEVEL
    cov = dict(
        evaluations=agg.evaluations,
        distinct_nontrivial=(len(agg.states) if (level == 'model_checking' and agg.states) else agg.nontrivial),
        rule=mod.RULE,
        samples=agg.samples[:6] or ["(no sample recorded)"],
        exhaustive=(not capped and done == nshards),
        shards=nshards, shards_completed=done,
        outcome_classes=dict(sorted(agg.outcomes.items())),
        distinct_outcomes=len(agg.outcomes),
        counters=dict(sorted(agg.counters.items())),
        known_findings_hit={k: c for k, (e, c) in hit_known.items()},
        bounds=getattr(mod, 'BOUNDS', {}).get(tier, ''),
    )
    if capped:
        cov['cap'] = f'VERIF_TIME_CAP={cap}s hit after {done} of {nshards} shards'
    if level == 'model_checking':
        cov['states'] = len(agg.states)
        cov['transitions'] = agg.transitions
        cov['traces_validated_against_impl'] = agg.traces
        cov['explanation'] = getattr(mod, 'MC_NOTE', '')
    ev = dict(property_id=mod.ID, tier=tier, seed=seed, level=level, coverage=cov,
              assumptions=list(mod.ASSUMPTIONS), wall_s=round(wall, 2), violations=nfresh)
    os.makedirs(os.path.join(OUT, 'evidence'), exist_ok=True)
    with open(os.path.join(OUT, 'evidence', f'{mod.ID}.json'), 'w') as f:
        json.dump(ev, f, indent=1, default=repr)


def run_replay(prop_name, repo, path, as_json):
    bind_repo(repo)
    mod = importlib.import_module(f'mc.props.{prop_name}')
    with open(path) as f:
        doc = json.load(f)
    case = doc['case']

    def execute():
        if doc.get('history_dependent') and doc.get('shard') is not None:
            res = ShardResult()
            res.MAX_VIOL = 10 ** 9
            run_shard_guarded(mod, doc['shard'], doc.get('tier', 'quick'), res)
            want = json.dumps(case, sort_keys=True)
            return [v for v in res.violations if json.dumps(v['case'], sort_keys=True, default=repr) == want]
        if isinstance(case, dict) and case.get('whole_shard'):
            res = ShardResult()
            run_shard_guarded(mod, case['shard'], doc.get('tier', 'quick'), res)
            return [v for v in res.violations if v['clause'] == 'unexpected-exception']
        return mod.replay(case)

    if as_json:
        # silence the library, print one JSON line
        devnull = os.open(os.devnull, os.O_WRONLY)
        saved = os.dup(1)
        os.dup2(devnull, 1)
        try:
            viols = execute()
        finally:
            os.dup2(saved, 1)
        print(json.dumps([dict(clause=v['clause'], expected=_j(v.get('expected')),
                               observed=_j(v.get('observed'))) for v in viols], default=repr))
        return 0
    viols = execute()
    print(f"replay of {path}: case={json.dumps(case)[:600]}")
    if not viols:
        print("no violation on this tree")
        return 0
    for v in viols:
        print(f"  clause={v['clause']} attrs={v['attrs']}\n    expected={v.get('expected')}\n    observed={v.get('observed')}")
    print(f"VIOLATION property={mod.ID} replay={path}")
    return 1
