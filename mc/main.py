"""Entry point: python mc/main.py <cXX> [--tier quick|thorough] [--replay FILE] [--repo DIR]"""
import argparse
import os
import sys

HERE = os.path.dirname(os.path.abspath(__file__))
sys.path.insert(0, os.path.dirname(HERE))


def main():
    ap = argparse.ArgumentParser()
    ap.add_argument('prop')
    ap.add_argument('--tier', default=os.environ.get('VERIF_TIER', 'quick'), choices=['quick', 'thorough'])
    ap.add_argument('--replay')
    ap.add_argument('--repo', default=os.environ.get('VERIF_REPO', '/repo'))
    ap.add_argument('--jobs', type=int, default=int(os.environ.get('VERIF_JOBS', '0')) or (os.cpu_count() or 4))
    ap.add_argument('--json', action='store_true')
    ap.add_argument('--verbose', action='store_true')
    a = ap.parse_args()
    prop = a.prop.lower()
    from mc import engine
    if a.replay:
        sys.exit(engine.run_replay(prop, a.repo, a.replay, a.json))
    try:
        seed = int(os.environ.get('VERIF_SEED', '0') or 0)
    except ValueError:
        seed = 0
    sys.exit(engine.run_check(prop, a.tier, a.repo, a.jobs, seed, a.verbose))


if __name__ == '__main__':
    main()
