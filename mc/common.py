"""
Shared pieces: coordinate families, exact reference geometry (Fractions), per-case reset of
FRAME's process-wide state, output silencing.
"""
from __future__ import annotations

import contextlib
import io
import itertools
import os
import sys
from fractions import Fraction as F


# --------------------------------------------------------------------------
# coordinate families: grid index -> exact decimal value (Fraction); FRAME sees float(value)
# --------------------------------------------------------------------------
def fam_int(i):
    return F(i)


def fam_half(i):
    return F(i, 2)


def fam_dec1(i):
    return F(i, 10)


def fam_dec3(i):
    return F(3 * i, 10)


def fam_dec7(i):            # 0.7 steps: another decimal family whose sums round differently
    return F(7 * i, 10)


_NONUNI = [F(0), F(1), F(3, 2), F(4), F(17, 4), F(6), F(13, 2), F(9)]


def fam_nonuni(i):
    return _NONUNI[i]


FAMILIES = dict(INT=fam_int, HALF=fam_half, DEC1=fam_dec1, DEC3=fam_dec3, DEC7=fam_dec7, NONUNI=fam_nonuni)


def num(fr: F):
    """The number handed to FRAME for an exact value: int when integral, else the nearest float."""
    return int(fr) if fr.denominator == 1 else float(fr)


def fl(fr: F) -> float:
    return float(fr)


# --------------------------------------------------------------------------
# exact rectangles: (x0, y0, x1, y1) Fractions
# --------------------------------------------------------------------------
def xrect(x0, y0, x1, y1):
    return (F(x0), F(y0), F(x1), F(y1))


def xarea(r):
    return (r[2] - r[0]) * (r[3] - r[1])


def xinter(a, b):
    x0, y0, x1, y1 = max(a[0], b[0]), max(a[1], b[1]), min(a[2], b[2]), min(a[3], b[3])
    if x0 < x1 and y0 < y1:
        return (x0, y0, x1, y1)
    return None


def xoverlap_area(a, b):
    i = xinter(a, b)
    return xarea(i) if i else F(0)


def xinside(a, b):
    """a inside (closed) b"""
    return a[0] >= b[0] and a[1] >= b[1] and a[2] <= b[2] and a[3] <= b[3]


def xunion_area(rects):
    xs = sorted({r[0] for r in rects} | {r[2] for r in rects})
    ys = sorted({r[1] for r in rects} | {r[3] for r in rects})
    tot = F(0)
    for i in range(len(xs) - 1):
        for j in range(len(ys) - 1):
            cx0, cx1, cy0, cy1 = xs[i], xs[i + 1], ys[j], ys[j + 1]
            if any(r[0] <= cx0 and cx1 <= r[2] and r[1] <= cy0 and cy1 <= r[3] for r in rects):
                tot += (cx1 - cx0) * (cy1 - cy0)
    return tot


def xdisjoint(rects):
    return all(xinter(a, b) is None for a, b in itertools.combinations(rects, 2))


def center_shape(r):
    """exact rect -> (cx, cy, w, h) Fractions"""
    return ((r[0] + r[2]) / 2, (r[1] + r[3]) / 2, r[2] - r[0], r[3] - r[1])


def frame_vec(r, tag=None):
    """exact rect -> the [x, y, w, h(, tag)] list FRAME reads (numbers rounded once)."""
    cx, cy, w, h = center_shape(r)
    v = [num(cx), num(cy), num(w), num(h)]
    if tag is not None:
        v.append(tag)
    return v


def rect_of_frame(R):
    """FRAME Rectangle -> float tuple (x0, y0, x1, y1) from centre/shape (the stored data)."""
    c, s = R.center, R.shape
    return (c.x - s.w / 2, c.y - s.h / 2, c.x + s.w / 2, c.y + s.h / 2)


def close(a: float, b, tol: float) -> bool:
    return abs(a - float(b)) <= tol


def rect_close(fr, ex, tol):
    return all(abs(fr[k] - float(ex[k])) <= tol for k in range(4))


def grid_rects(n, m=None):
    """All index rectangles (i0, j0, i1, j1) with 0<=i0<i1<=n, 0<=j0<j1<=m, smallest first."""
    m = n if m is None else m
    out = []
    for i0 in range(n):
        for i1 in range(i0 + 1, n + 1):
            for j0 in range(m):
                for j1 in range(j0 + 1, m + 1):
                    out.append((i0, j0, i1, j1))
    out.sort(key=lambda r: ((r[2] - r[0]) * (r[3] - r[1]), r))
    return out


def map_rect(fam, r, ox=0, oy=0):
    f = FAMILIES[fam] if isinstance(fam, str) else fam
    return (f(r[0] + ox), f(r[1] + oy), f(r[2] + ox), f(r[3] + oy))


# --------------------------------------------------------------------------
# FRAME process-wide state
# --------------------------------------------------------------------------
def reset_frame_state():
    """Put FRAME's process-wide mutable state back to what a fresh interpreter has."""
    from frame.geometry.geometry import Rectangle
    Rectangle.undefine_epsilon()
    pb = sys.modules.get('tools.rect.pseudobool')
    if pb is not None:
        pb.memory[:] = [0, 1]
        pb.mmap.clear()


@contextlib.contextmanager
def quiet():
    """Swallow Python-level prints of the library (workers also redirect fd 1/2)."""
    so, se = sys.stdout, sys.stderr
    sys.stdout, sys.stderr = io.StringIO(), io.StringIO()
    try:
        yield
    finally:
        sys.stdout, sys.stderr = so, se


def exc_name(e: BaseException) -> str:
    return type(e).__name__


def replay_via(check_case):
    """Build a module-level replay(case) from a check_case(case, res) function."""
    def replay(case):
        from mc.engine import ShardResult
        res = ShardResult()
        reset_frame_state()
        check_case(case, res)
        return res.violations
    return replay


def chunks(seq, n):
    seq = list(seq)
    k = max(1, (len(seq) + n - 1) // n)
    return [seq[i:i + k] for i in range(0, len(seq), k)]
