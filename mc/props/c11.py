"""
C11 - Die refinement keeps the tiling, reaches the count and bounds the aspect ratio.

Enumerated: every valid die with <=2 regions (blockage / specialised / fixed) on small grids in exact,
decimal and stretched coordinate families x every aspect-ratio limit r from a menu x every count n in
1..N; every rows x cols initial grid on empty dies; two-call sequences.
Oracle: geometric post-conditions evaluated on the regions before and after the call.
"""
from __future__ import annotations

import itertools
from fractions import Fraction as F

from mc.common import FAMILIES, grid_rects, xinter, xinside, center_shape, num, reset_frame_state, replay_via

ID = 'C11'
LEVEL = 'exploration'
RULE = ("all valid dies with <=2 regions (kinds '#', 'dsp', fixed) on a 3x3-cell (quick: HALF, DEC1) or 3x2-cell (stretched cells 1x1.2 and 1x3) "
        "grid x r in {1.42,1.5,1.7,1.99,2,3} x n in 1..N (and dies of a few mm / um written in metres and of 1e5 units, also with n = 60, 250, 1000); initial_grid(rows, cols) for rows, cols <= 5 on empty dies of 5 sizes; all "
        "ordered triples of calls from an 8-call menu on one die object for dies with <=1 region, and a grid followed by all ordered pairs of calls on empty dies. Non-trivial = calls that had to split at least one region (count or ratio not yet met); distinct by construction.")
ASSUMPTIONS = ["aspect ratios compared with relative 1e-9; coordinates with 1e-9*scale",
               "r restricted to the admissible range (> sqrt 2; the API asserts r > 1.415)"]
BOUNDS = {'quick': 'n<=12; 3x3 grid HALF/DEC1, stretched 3x2', 'thorough': 'n<=40; adds DEC3/DEC7/INT and 4x3 grid with <=2 regions; all 4-call sequences over a 5-call menu, grid + all triples of calls'}

RS = [1.42, 1.5, 1.7, 1.99, 2.0, 3.0]

# stretched families: x steps 1, y steps 1.2 / 3
AX = {
    'HALF': (FAMILIES['HALF'], FAMILIES['HALF']),
    'DEC1': (FAMILIES['DEC1'], FAMILIES['DEC1']),
    'DEC3': (FAMILIES['DEC3'], FAMILIES['DEC3']),
    'DEC7': (FAMILIES['DEC7'], FAMILIES['DEC7']),
    'INT': (FAMILIES['INT'], FAMILIES['INT']),
    'S12': (lambda i: F(i), lambda j: F(12 * j, 10)),
    'S3': (lambda i: F(i), lambda j: F(3 * j)),
    'S13': (lambda i: F(13 * i, 10), lambda j: F(j)),
    # designs written in metres: a die of a few millimetres / micrometres (tolerances that do not scale with the units)
    'MILLI': (lambda i: F(i, 1000), lambda j: F(j, 1000)),
    'MICRO': (lambda i: F(13 * i, 10 ** 7), lambda j: F(j, 10 ** 6)),
    'KILO': (lambda i: F(100003 * i, 10), lambda j: F(100003 * j, 10)),
}
KINDS = ['#', 'dsp', 'fixed']


def ex_of(fam, r):
    fx, fy = AX[fam]
    return (fx(r[0]), fy(r[1]), fx(r[2]), fy(r[3]))


def vec(e, tag=None):
    cx, cy, w, h = center_shape(e)
    v = [num(cx), num(cy), num(w), num(h)]
    if tag:
        v.append(tag)
    return v


def die_descriptions(W, H, kmax):
    """valid region sets (index rects + kinds), simplest first"""
    rects = grid_rects(W, H)
    out = [[]]
    for r in rects:
        for k in KINDS:
            out.append([(r, k)])
    if kmax >= 2:
        for a, b in itertools.combinations(rects, 2):
            if xinter(tuple(map(F, a)), tuple(map(F, b))) is None:
                for ka, kb in (('#', 'dsp'), ('dsp', 'fixed'), ('fixed', '#'), ('dsp', 'BRAM')):   # ('BRAM' < '_' < 'dsp' in the order of the characters)
                    out.append([(a, ka), (b, kb)])
    return out


def plan(tier):
    if tier == 'quick':
        return [('HALF', 3, 3, 2, 12), ('DEC1', 3, 3, 1, 12), ('S12', 3, 2, 1, 12), ('S3', 2, 2, 2, 12), ('S13', 2, 3, 1, 12),
                ('MILLI', 3, 2, 1, 12), ('MICRO', 2, 2, 1, 12), ('KILO', 2, 2, 1, 12)]
    return [('HALF', 3, 3, 2, 40), ('DEC1', 3, 3, 2, 40), ('DEC3', 3, 2, 2, 24), ('DEC7', 2, 3, 2, 24), ('INT', 4, 3, 2, 24),
            ('S12', 3, 2, 2, 40), ('S3', 2, 2, 2, 40), ('S13', 2, 3, 2, 40),
            ('MILLI', 3, 2, 2, 40), ('MICRO', 2, 2, 2, 40), ('KILO', 2, 2, 2, 40)]


def shards(tier):
    out = []
    for (fam, W, H, kmax, N) in plan(tier):
        nd = len(die_descriptions(W, H, kmax))
        step = 12
        for lo in range(0, nd, step):
            out.append(dict(kind='split', fam=fam, W=W, H=H, kmax=kmax, N=N, lo=lo, hi=min(nd, lo + step)))
    out.append(dict(kind='grid'))
    for (fam, W, H) in SEQ_FAMS:
        nd = len(die_descriptions(W, H, 1))
        for lo in range(0, nd, 8):
            out.append(dict(kind='seq', fam=fam, W=W, H=H, lo=lo, hi=min(nd, lo + 8)))
    for k in range(len(GRID_DIES)):
        out.append(dict(kind='gridseq', die=k))
    if tier == 'thorough':
        # four calls in a row (reduced menu) and a grid followed by three calls
        for (fam, W, H) in SEQ_FAMS[:2]:
            nd = len(die_descriptions(W, H, 1))
            for lo in range(0, nd, 4):
                out.append(dict(kind='seq', fam=fam, W=W, H=H, lo=lo, hi=min(nd, lo + 4), L=4))
        for k in range(len(GRID_DIES)):
            out.append(dict(kind='gridseq', die=k, L=3))
    return out


# operation sequences: every ordered triple of calls from CALLS on every die with <=1 region; on empty dies a grid first
SEQ_FAMS = (('HALF', 3, 3), ('DEC1', 3, 2), ('S12', 2, 2))
CALLS = [(1.5, 1), (1.5, 3), (2.0, 2), (2.0, 5), (3.0, 1), (3.0, 12), (1.42, 7), (1.7, 4)]
CALLS4 = [(1.5, 1), (1.5, 3), (2.0, 2), (3.0, 12), (1.42, 7)]
GRID_DIES = [(4, 4), (6, 3), (1, 1), (10.5, 2.5), (0.3, 0.7)]
GRIDS = [(1, 4), (4, 1), (2, 3), (3, 2), (2, 2), (6, 2), (1, 2), (3, 3)]


def build_die(fam, W, H, items):
    from frame.die.die import Die
    from frame.netlist.netlist import Netlist
    fx, fy = AX[fam]
    tree = {'width': num(fx(W)), 'height': num(fy(H))}
    # (a second specialised region gets an upper-case tag: 'BRAM' < '_' < 'dsp' in the order of the characters)
    tags = iter(['dsp', 'BRAM', 'dsp2'])
    regs = [vec(ex_of(fam, tuple(r)), (next(tags) if k == 'dsp' else k)) for r, k in items if k != 'fixed']
    if regs:
        tree['regions'] = regs
    fixed = [ex_of(fam, tuple(r)) for r, k in items if k == 'fixed']
    nl = None
    if fixed:
        mods = {f'F{i}': {'fixed': True, 'rectangles': [vec(e)]} for i, e in enumerate(fixed)}
        mods['S'] = {'area': 1}
        nl = Netlist({'Modules': mods, 'Nets': []})
    return Die(tree, nl)


def fr(R):
    c, s = R.center, R.shape
    return (c.x - s.w / 2, c.y - s.h / 2, c.x + s.w / 2, c.y + s.h / 2)


def refinable_of(d, res=None, case=None, attrs=None):
    """the refinable regions as the API reports them (floorplanning_rectangles), cross-checked with the region lists"""
    api = list(d.floorplanning_rectangles()[0])
    lists = d.specialized_regions + d.ground_regions
    if res is not None and sorted(map(id, api)) != sorted(map(id, lists)):
        res.violation('observers-disagree', case, attrs, f'{len(lists)} regions (specialized + ground lists)',
                      f'floorplanning_rectangles() reports {len(api)}')
    return api


def snapshot(d):
    return dict(refinable=[(fr(r), r.region) for r in refinable_of(d)],
                blockages=[(id(r), r.center.x, r.center.y, r.shape.w, r.shape.h, r.region) for r in d.blockages],
                fixed=[(id(r), r.center.x, r.center.y, r.shape.w, r.shape.h, r.region) for r in d.fixed_regions],
                keep=list(d.blockages) + list(d.fixed_regions),
                dims=(d.width, d.height, fr(d.bounding_box)))


def post_conditions(case, res, attrs, before, d, scale, count_min=None, count_eq=None, rmax=None):
    tol = 1e-9 * scale
    new = [(fr(r), r.region, r) for r in refinable_of(d, res, case, attrs)]
    fixed_api = list(d.floorplanning_rectangles()[1])
    if sorted(map(id, fixed_api)) != sorted(map(id, d.fixed_regions)):
        res.violation('observers-disagree', case, attrs, 'fixed_regions', 'floorplanning_rectangles()[1] differs')

    def bad(clause, exp, obs):
        res.violation(clause, case, attrs, exp, obs)

    if count_min is not None and len(new) < count_min:
        bad('count', f'>= {count_min} refinable regions', len(new))
    if count_eq is not None and len(new) != count_eq:
        bad('count', f'{count_eq} refinable regions', len(new))
    # each new region inside exactly one old region, same tag; the pieces fill the old region; pairwise disjoint
    fill = [0.0] * len(before['refinable'])
    for (q, tag, R) in new:
        owners = [i for i, (o, otag) in enumerate(before['refinable'])
                  if q[0] >= o[0] - tol and q[1] >= o[1] - tol and q[2] <= o[2] + tol and q[3] <= o[3] + tol]
        if len(owners) != 1:
            bad('tiling', 'each new region inside exactly one old refinable region', dict(region=list(q), owners=len(owners)))
            continue
        i = owners[0]
        if tag != before['refinable'][i][1]:
            bad('tag', before['refinable'][i][1], tag)
        fill[i] += (q[2] - q[0]) * (q[3] - q[1])
        if rmax is not None:
            w, h = q[2] - q[0], q[3] - q[1]
            ar = max(w / h, h / w)
            if ar > rmax * (1 + 1e-9) or R.aspect_ratio > rmax * (1 + 1e-9):
                bad('aspect-ratio', f'<= {rmax}', ar)
    for i, (o, _) in enumerate(before['refinable']):
        area = (o[2] - o[0]) * (o[3] - o[1])
        if abs(fill[i] - area) > 1e-9 * scale * scale:
            bad('tiling', f'old region {list(o)} (area {area}) exactly covered', fill[i])
    for (a, _, _), (b, _, _) in itertools.combinations(new, 2):
        if min(a[2], b[2]) - max(a[0], b[0]) > tol and min(a[3], b[3]) - max(a[1], b[1]) > tol:
            bad('tiling', 'pairwise disjoint regions', [list(a), list(b)])
            break
    # blockages and fixed regions untouched (same objects, same coordinates)
    nb = [(id(r), r.center.x, r.center.y, r.shape.w, r.shape.h, r.region) for r in d.blockages]
    nf = [(id(r), r.center.x, r.center.y, r.shape.w, r.shape.h, r.region) for r in d.fixed_regions]
    if nb != before['blockages'] or nf != before['fixed']:
        bad('untouched', 'blockages and fixed regions unchanged', 'changed')
    # ... and so is the die itself (the refined regions tile the SAME die)
    dims = (d.width, d.height, fr(d.bounding_box))
    if dims != before['dims']:
        bad('die-altered', before['dims'], dims)
    return len(new)


def check_case(case, res):
    kind = case['kind']
    if kind == 'split':
        fam, W, H = case['fam'], case['W'], case['H']
        fx, fy = AX[fam]
        scale = float(max(fx(W), fy(H)))
        d = build_die(fam, W, H, case['items'])
        before = snapshot(d)
        n0 = len(before['refinable'])
        attrs = dict(fam=fam, r=case['r'], r_lt_2=case['r'] < 2, nregions=len(case['items']))
        try:
            d.split_refinable_regions(case['r'], case['n'])
        except Exception as e:  # noqa
            if n0 == 0:      # no refinable area at all: the request cannot be met, refusing it is legitimate
                res.case('no-refinable-area', nontrivial=False)
                return
            res.violation('raises', case, attrs, 'refinement succeeds', f'{type(e).__name__}: {e}')
            res.case('raised')
            return
        n1 = post_conditions(case, res, attrs, before, d, scale, count_min=(case['n'] if n0 > 0 else None), rmax=case['r'])
        res.case('split' if n1 > n0 else 'nothing-to-do', nontrivial=n1 > n0)
    elif kind == 'grid':
        from frame.die.die import Die
        w, h = case['w'], case['h']
        tree = {'width': w, 'height': h}
        strip = case.get('strip')
        if strip:
            # a die that is NOT empty: a blockage strip along one full side (it still has a single ground rectangle)
            tree['regions'] = [[w / 2, h * 0.9, w, h * 0.2, '#']] if strip == 'top' else [[w * 0.1, h / 2, w * 0.2, h, '#']]
        d = Die(tree)
        before = snapshot(d)
        attrs = dict(rows=case['rows'], cols=case['cols'], strip=strip)
        try:
            d.initial_grid(case['rows'], case['cols'])
        except Exception as e:  # noqa
            if strip:
                res.case('grid-refused-on-non-empty-die', nontrivial=False)     # the request is for an empty die: refusing is right
                return
            res.violation('raises', case, attrs, 'grid created', f'{type(e).__name__}: {e}')
            res.case('raised')
            return
        if strip:
            # accepted on a non-empty die: then at least the post-conditions must hold (they cannot for an r x c grid of the die)
            post_conditions(case, res, attrs, before, d, max(w, h), count_eq=case['rows'] * case['cols'])
            res.case('grid-on-non-empty-die')
            return
        post_conditions(case, res, attrs, before, d, max(w, h), count_eq=case['rows'] * case['cols'])
        # a grid: every cell has the same size
        cells = d.ground_regions
        if any(abs(c.shape.w - w / case['cols']) > 1e-9 * w or abs(c.shape.h - h / case['rows']) > 1e-9 * h for c in cells):
            res.violation('grid-shape', case, attrs, [w / case['cols'], h / case['rows']],
                          [(c.shape.w, c.shape.h) for c in cells][:4])
        res.case('grid')
    else:   # sequence of calls on one die object (optionally a grid first, on an empty die)
        if case.get('w') is not None:
            from frame.die.die import Die
            fam, scale = 'plain', float(max(case['w'], case['h']))
            d = Die({'width': case['w'], 'height': case['h']})
        else:
            fam, W, H = case['fam'], case['W'], case['H']
            fx, fy = AX[fam]
            scale = float(max(fx(W), fy(H)))
            d = build_die(fam, W, H, case['items'])
        last = case['calls'][-1]
        attrs = dict(fam=fam, seq=True, r=last[0], r_lt_2=last[0] < 2, nregions=len(case.get('items', [])), ncalls=len(case['calls']),
                     grid_first=case['calls'][0][0] == 'grid')
        grew = False
        for call in case['calls']:
            before = snapshot(d)
            if call[0] == 'grid':
                try:
                    d.initial_grid(call[1], call[2])
                except Exception as e:  # noqa
                    res.violation('raises', case, attrs, 'grid created', f'{type(e).__name__}: {e}')
                    res.case('raised')
                    return
                post_conditions(case, res, dict(attrs, r=None, r_lt_2=False), before, d, scale, count_eq=call[1] * call[2])
                grew = True
                continue
            r, n = call
            try:
                d.split_refinable_regions(r, n)
            except Exception as e:  # noqa
                if not before['refinable']:
                    res.case('no-refinable-area', nontrivial=False)
                    return
                res.violation('raises', case, attrs, 'refinement succeeds', f'{type(e).__name__}: {e}')
                res.case('raised')
                return
            n1 = post_conditions(case, res, dict(attrs, r=r, r_lt_2=r < 2), before, d, scale, count_min=n, rmax=r)
            grew = grew or n1 > len(before['refinable'])
        res.case('sequence', nontrivial=grew)


def run_shard(shard, tier, res):
    if shard['kind'] == 'split':
        fam, W, H = shard['fam'], shard['W'], shard['H']
        descs = die_descriptions(W, H, shard['kmax'])[shard['lo']:shard['hi']]
        for items in descs:
            big = (60, 250, 1000) if fam in ('MILLI', 'MICRO', 'KILO') else ()
            for r in RS:
                for n in tuple(range(1, shard['N'] + 1)) + big:
                    reset_frame_state()
                    check_case(dict(kind='split', fam=fam, W=W, H=H, items=[[list(a), k] for a, k in items], r=r, n=n), res)
        res.samples.append(dict(kind='split', fam=fam, W=W, H=H, items=[[list(a), k] for a, k in descs[-1]], r=1.5, n=5))
    elif shard['kind'] == 'grid':
        for (w, h) in ((4, 4), (6, 3), (1, 1), (10.5, 2.5), (0.3, 0.7), (1e-6, 1e-6), (3e-7, 2e-7), (2e5, 1e5 + 0.3)):
            for rows in range(1, 6):
                for cols in range(1, 6):
                    if rows + cols == 2:
                        continue
                    reset_frame_state()
                    check_case(dict(kind='grid', w=w, h=h, rows=rows, cols=cols), res)
                    if rows <= 2 and cols <= 3:
                        for strip in ('top', 'left'):
                            reset_frame_state()
                            check_case(dict(kind='grid', w=w, h=h, rows=rows, cols=cols, strip=strip), res)
        res.samples.append(dict(kind='grid', w=6, h=3, rows=2, cols=5))
    elif shard['kind'] == 'seq':
        fam, W, H = shard['fam'], shard['W'], shard['H']
        for items in die_descriptions(W, H, 1)[shard['lo']:shard['hi']]:
            L = shard.get('L', 3)
            for calls in itertools.product(CALLS if L == 3 else CALLS4, repeat=L):
                reset_frame_state()
                check_case(dict(kind='seq', fam=fam, W=W, H=H, items=[[list(a), k] for a, k in items],
                                calls=[list(c) for c in calls]), res)
        res.samples.append(dict(kind='seq', fam=fam, W=W, H=H, items=[], calls=[[1.5, 1], [2.0, 2], [1.5, 2]]))
    else:
        w, h = GRID_DIES[shard['die']]
        for g in GRIDS:
            for calls in itertools.product(CALLS, repeat=shard.get('L', 2)):
                reset_frame_state()
                check_case(dict(kind='seq', w=w, h=h, calls=[['grid', g[0], g[1]]] + [list(c) for c in calls]), res)
        res.samples.append(dict(kind='seq', w=w, h=h, calls=[['grid', 1, 4], [1.5, 3]]))


replay = replay_via(check_case)
