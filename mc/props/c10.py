"""
C10 - Global floorplanning returns a feasible allocation and rigid hard modules.

Every instance of a small product space (die x pre-refinement x netlist x alpha x threshold x iteration limit) is
run through the real glbfloor (GEKKO with the bundled local solver).  Oracle: feasibility invariants on what it returns;
runs that do not return (solver failure) are counted, as the statement only speaks about returns.
"""
from __future__ import annotations

import copy
import itertools
import math

from mc.common import reset_frame_state, quiet

ID = 'C10'
LEVEL = 'exploration'
PRELOAD = ['frame.geometry.geometry', 'frame.netlist.netlist', 'frame.die.die', 'frame.allocation.allocation', 'ruamel.yaml', 'mc.common', 'tools.glbfloor.optimization']
RULE = ("dies {4x4, 6x4, 4x4 with a blockage, 4x4 with a square / a 2x0.5 fixed module} x pre-refinement {split_refinable_regions(2,4) / (2,16) / (1.5,9), initial_grid(2,2) / (4,4) / (2,4) / (3,2) on empty dies} x netlists of "
        "2-3 modules from {soft A, soft B, soft C (overlapping the fixed module), hard single rectangle, hard L-shape, flippable hard L-shape, flippable shapes almost aligned in x or y} (+ the fixed module of the die, also named like the optimiser's internal name of a hard module's first rectangle) with a chain of 2-pin nets or one hyperedge x "
        "alpha in {0.1, 0.5} x threshold in {0.7, 0.95} x max_iter in {1, 2} (quick: full product minus one corner) + threshold 1.0 with 3 rounds on the dies with a fixed module + designs written in units of 1e-5 and 1e-2 + module names of 88-99 characters + modules starting at the same place; thorough: alpha {0.1,0.5,0.9} x threshold {0.5,0.7,0.95} x max_iter {1,2,3}. "
        "Non-trivial = runs that returned an allocation with at least one cell shared by two modules or partially occupied; distinct by construction.")
ASSUMPTIONS = ["'within solver tolerance': ratios in [-1e-6, 1+1e-6], per-cell occupancy <= 1 + 1e-4, centres inside the die within 1e-6 (GEKKO RTOL/OTOL default 1e-6)",
               "the check covers the enumerated instances with the APM/IPOPT binary shipped with GEKKO; it does not verify the solver",
               "no terminals (the optimiser does not support them)"]
BOUNDS = {'quick': 'about 1500 instances', 'thorough': 'about 5800 instances'}

DIES = {
    'd44': dict(w=4, h=4, regions=[], fixed=None),
    'd64': dict(w=6, h=4, regions=[], fixed=None),
    'd44b': dict(w=4, h=4, regions=[[3.5, 0.5, 1, 1, '#']], fixed=None),
    'd44f': dict(w=4, h=4, regions=[], fixed=[0.5, 3.5, 1, 1]),
    # a fixed module that is not a square (2 x 0.5 along the top border)
    'd44g': dict(w=4, h=4, regions=[], fixed=[1.0, 3.75, 2, 0.5]),
}
MODS = {
    'softA': {'area': 3.0, 'center': [1.0, 1.0]},
    'softB': {'area': 2.0, 'center': [3.0, 2.5]},
    'hard1': {'hard': True, 'rectangles': [[2.0, 2.0, 1.0, 1.0]]},
    'hardL': {'hard': True, 'rectangles': [[2.0, 1.5, 2.0, 1.0], [1.5, 2.5, 1.0, 1.0]]},
    'flipL': {'hard': True, 'flip': True, 'rectangles': [[2.0, 1.5, 2.0, 1.0], [1.5, 2.5, 1.0, 1.0]]},
    # a soft module whose initial square covers most of the fixed rectangle of die d44f
    'softC': {'area': 3.0, 'center': [1.0, 3.0]},
    # a second soft module that starts exactly where softA starts (their initial squares coincide)
    'softA2': {'area': 4.0, 'center': [1.0, 1.0]},
    # flippable modules whose rectangles are (almost) aligned in one axis: the offset in that axis is below the solver
    # tolerance, so the solution may come back 'mirrored' in it and the mirror branches of the extraction run
    'flipIy': {'hard': True, 'flip': True, 'rectangles': [[2.0, 1.5, 2.0, 1.0], [3.5, 1.5000001, 1.0, 0.9]]},
    'flipIx': {'hard': True, 'flip': True, 'rectangles': [[2.0, 1.5, 1.0, 2.0], [2.0000001, 3.0, 0.9, 1.0]]},
}
NETLISTS = [('softA', 'softB'), ('softA', 'hard1'), ('softA', 'hardL'), ('softB', 'flipL'), ('softA', 'softB', 'hard1'),
            ('softA', 'softB', 'hardL'), ('softA', 'softB', 'flipL'), ('softA', 'hard1', 'hardL'), ('softB', 'hard1', 'flipL'),
            ('softC', 'softB'), ('softC', 'hard1'), ('softA', 'flipIy'), ('softB', 'flipIx'), ('softA', 'softB', 'flipIy'),
            ('softA2', 'softA', 'softB')]
PRES = [['split', 2.0, 4], ['split', 2.0, 16], ['grid', 2, 2], ['grid', 4, 4], ['split', 1.5, 9], ['grid', 2, 4], ['grid', 3, 2]]
ALPHAS = [0.1, 0.5]
THRS = [0.7, 0.95]
ITERS = [1, 2]


def instances(tier):
    if tier == 'quick':
        alphas, thrs, iters, netlists = [0.1, 0.5], [0.7, 0.95], [1, 2], range(len(NETLISTS))
    else:
        alphas, thrs, iters, netlists = [0.1, 0.5, 0.9], [0.5, 0.7, 0.95], [1, 2, 3], range(len(NETLISTS))
    full = []
    for d, nl, pre, a, t, it in itertools.product(DIES, netlists, range(len(PRES)), alphas, thrs, iters):
        if PRES[pre][0] == 'grid' and d in ('d44b', 'd44f', 'd44g'):
            continue
        if d == 'd44g' and (nl not in (0, 2, 9, 10) or pre not in (0, 4)):
            continue
        if tier == 'quick' and a == 0.1 and t == 0.95:
            continue
        for hyper in (False, True):
            if hyper and len(NETLISTS[nl]) < 3:
                continue
            full.append(dict(die=d, netlist=nl, pre=PRES[pre], alpha=a, thr=t, max_iter=it, hyper=hyper))
            # the fixed module carries the name the optimiser gives internally to rectangle 0 of a movable hard module
            if d == 'd44f' and not hyper and it == 2 and any(MODS[k].get('hard') for k in NETLISTS[nl]):
                full.append(dict(die=d, netlist=nl, pre=PRES[pre], alpha=a, thr=t, max_iter=it, hyper=hyper, collide=True))
    # threshold exactly 1 (the only value at which the cell of a fixed module, ratio 1.0, does not block a split) with three
    # and four refine/optimise rounds
    # designs written in metres (a die of 40 um) and in units of 0.01
    for unit in (1e-5, 1e-2):
        for d in ('d44', 'd44f'):
            for nl in (0, 2, 4, 14):
                for pre in (0, 2):
                    if PRES[pre][0] == 'grid' and d == 'd44f':
                        continue
                    full.append(dict(die=d, netlist=nl, pre=PRES[pre], alpha=0.5, thr=0.7, max_iter=2, hyper=False, unit=unit))
    # module names of 88..99 characters (valid identifiers: the optimiser derives the names of its solver variables from them)
    for ln in range(88, 100):
        for pre in (2, 0):
            full.append(dict(die='d44', netlist=14, pre=PRES[pre], alpha=0.5, thr=0.95, max_iter=1, hyper=False, longname=ln))
    for d in ('d44f', 'd44g'):
        for nl in (0, 2, 9):
            for pre in (0, 4):
                for it in ((3,) if tier == 'quick' else (3, 4)):
                    full.append(dict(die=d, netlist=nl, pre=PRES[pre], alpha=0.5, thr=1.0, max_iter=it, hyper=False))
    return full


def build(case):
    from frame.die.die import Die
    from frame.netlist.netlist import Netlist
    d = DIES[case['die']]
    mods = {}
    names = []
    u = float(case.get('unit', 1.0))        # the design is written in other units: every length x u
    for i, k in enumerate(NETLISTS[case['netlist']]):
        node = copy.deepcopy(MODS[k])
        if case['die'] == 'd64' and 'center' in node:
            node['center'][0] *= 1.5
        if u != 1.0:
            if 'area' in node:
                node['area'] *= u * u
            if 'center' in node:
                node['center'] = [v * u for v in node['center']]
            if 'rectangles' in node:
                node['rectangles'] = [[v * u for v in r] for r in node['rectangles']]
        nm = f'M{i}_{k}'
        if case.get('longname') and i == 0:
            nm = (nm + '_' + 'L' * 200)[:case['longname']]
        mods[nm] = node
        names.append(nm)
    if d['fixed']:
        fname = 'F'
        if case.get('collide'):
            fname = next(nm for nm in names if mods[nm].get('hard')) + '_0'
        mods[fname] = {'fixed': True, 'rectangles': [[v * u for v in d['fixed']]]}
        names.append(fname)
    if case['hyper']:
        nets = [names[:3] + [2.0]] + ([[names[0], names[-1]]] if len(names) > 3 else [])
    else:
        nets = [[a, b] for a, b in zip(names, names[1:])]
    n = Netlist({'Modules': mods, 'Nets': nets})
    tree = {'width': d['w'] * u, 'height': d['h'] * u}
    if d['regions']:
        tree['regions'] = [[v * u for v in r[:4]] + list(r[4:]) for r in d['regions']]
    die = Die(tree, n)
    if case['pre']:
        if case['pre'][0] == 'split':
            die.split_refinable_regions(case['pre'][1], case['pre'][2])
        else:
            die.initial_grid(case['pre'][1], case['pre'][2])
    return die, n


def check_case(case, res):
    from tools.glbfloor.optimization import glbfloor
    reset_frame_state()
    attrs = dict(die=case['die'], mods=list(NETLISTS[case['netlist']]), pre=bool(case['pre']), thr=case['thr'], max_iter=case['max_iter'])
    if case.get('collide'):
        attrs['collide'] = True
    die, n = build(case)
    W, H = die.width, die.height
    u = float(case.get('unit', 1.0))
    if u != 1.0:
        attrs['unit'] = u
    t9, t6 = 1e-9 * u, 1e-6 * u          # length tolerances, in the units of the design
    before = {}
    for m in n.modules:
        before[m.name] = [(r.center.x, r.center.y, r.shape.w, r.shape.h) for r in m.rectangles]
    try:
        with quiet():
            out_die, alloc = glbfloor(die, case['thr'], case['alpha'], max_iter=case['max_iter'])
    except Exception as e:  # noqa
        res.counters['did-not-return:' + type(e).__name__] += 1
        res.case('did-not-return', nontrivial=False)
        return
    nl = out_die.netlist

    def bad(clause, exp, obs, **extra):
        res.violation(clause, case, dict(attrs, **extra), exp, obs)

    cells = []
    shared = False
    for a in alloc.allocations:
        r = a.rect
        q = (r.center.x - r.shape.w / 2, r.center.y - r.shape.h / 2, r.center.x + r.shape.w / 2, r.center.y + r.shape.h / 2)
        cells.append(q)
        if q[0] < -t9 or q[1] < -t9 or q[2] > W + t9 or q[3] > H + t9:
            bad('cell-inside-die', [W, H], list(q))
        tot = 0.0
        for mname, v in a.alloc.items():
            if not (-1e-6 <= v <= 1 + 1e-6) or not math.isfinite(v):
                bad('ratio-range', '[0, 1]', v)
            tot += v
        if tot > 1 + 1e-4:
            bad('cell-over-occupied', '<= 1', tot)
        if len(a.alloc) > 1 or any(1e-3 < v < 1 - 1e-3 for v in a.alloc.values()):
            shared = True
    for a, b in itertools.combinations(cells, 2):
        if min(a[2], b[2]) - max(a[0], b[0]) > t9 and min(a[3], b[3]) - max(a[1], b[1]) > t9:
            bad('cells-overlap', 'pairwise disjoint', [list(a), list(b)])
            break
    for m in nl.modules:
        rects = [(r.center.x, r.center.y, r.shape.w, r.shape.h) for r in m.rectangles]
        if m.is_fixed:
            if rects != before[m.name]:
                bad('fixed-changed', before[m.name], rects)
            for fr in before[m.name]:
                q = (fr[0] - fr[2] / 2, fr[1] - fr[3] / 2, fr[0] + fr[2] / 2, fr[1] + fr[3] / 2)
                own = [a for a, c in zip(alloc.allocations, cells) if all(abs(c[k] - q[k]) <= t9 for k in range(4))]
                if len(own) != 1 or own[0].alloc != {m.name: 1.0}:
                    bad('fixed-ownership', {m.name: 1.0}, [dict(o.alloc) for o in own])
            continue
        c = m.center
        if m.is_hard:
            # centre of a movable hard module = centroid of its rectangles
            A = sum(r[2] * r[3] for r in rects)
            cx, cy = sum(r[0] * r[2] * r[3] for r in rects) / A, sum(r[1] * r[2] * r[3] for r in rects) / A
        else:
            if c is None:
                bad('centre-inside-die', 'a centre', None)
                continue
            cx, cy = c.x, c.y
        if not (math.isfinite(cx) and math.isfinite(cy)) or cx < -t6 or cy < -t6 or cx > W + t6 or cy > H + t6:
            bad('centre-inside-die', [W, H], [cx, cy], hard=m.is_hard)
        if m.is_hard:
            b0 = before[m.name]
            if len(rects) != len(b0) or any(abs(r[2] - q[2]) > t9 or abs(r[3] - q[3]) > t9 for r, q in zip(rects, b0)):
                bad('hard-reshaped', b0, rects)
                continue
            ok = False
            for sx, sy in itertools.product((1, -1), repeat=2):
                if not m.flip and (sx, sy) != (1, 1):
                    continue
                if all(abs((r[0] - rects[0][0]) - sx * (q[0] - b0[0][0])) <= t6 and
                       abs((r[1] - rects[0][1]) - sy * (q[1] - b0[0][1])) <= t6 for r, q in zip(rects, b0)):
                    ok = True
            if not ok:
                bad('hard-not-rigid', 'translation' + (' or mirror image' if m.flip else ''), dict(before=b0, after=rects), flip=m.flip)
    res.case('returned', nontrivial=shared)


def shards(tier):
    inst = instances(tier)
    step = 4
    return [dict(lo=lo, hi=min(len(inst), lo + step)) for lo in range(0, len(inst), step)]


def run_shard(shard, tier, res):
    inst = instances(tier)[shard['lo']:shard['hi']]
    for case in inst:
        check_case(case, res)
    res.samples.append(inst[0])


def replay(case):
    from mc.engine import ShardResult
    res = ShardResult()
    check_case(case, res)
    return res.violations
