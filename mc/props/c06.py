"""
C06 - Single-trunk orthogon recognition is sound and complete.

Enumerated: every ordered list (with repetitions) of length 1..L over the index rectangles of a
4x4-point grid, in exact and decimal coordinate families, plus a near-miss family on the points
{0, 1, 1.001, 2, 3}; driven through create_stog directly and through Netlist loading.
Oracle: brute-force 'exists a trunk index such that every other index abuts one of its sides
within the side's extent without overlapping it' on exact rationals.
"""
from __future__ import annotations

import itertools
from fractions import Fraction as F

from mc.common import FAMILIES, grid_rects, xinter, center_shape, reset_frame_state, replay_via

ID = 'C06'
LEVEL = 'exploration'
RULE = ("all ordered lists with repetition, length 1..3 (quick) / 1..4 (thorough), of the 36 rectangles of a 4x4-point "
        "grid (families HALF, DEC1, DEC3, and HALF / DEC1 translated by 20000 / 1000: coordinates 1e4 times the sizes; 2.7-unit steps at 541365.3; near misses of 3 units between rectangles of 2000 units, through Netlist loading) and length 1..2 (+ length 3 on the 1/1.001 sub-alphabet) of the 100 rectangles of the near-miss grid "
        "{0,1,1.001,2,3}; non-trivial = lists of >=2 rectangles in which at least one rectangle has all the others touching it "
        "(a trunk candidate: orthogons and near misses), distinct by construction")
ASSUMPTIONS = ["distance tolerance as a netlist load sets it (1e-12 * smallest side); near misses are 1e-3, far above it",
               "branch-branch overlap is not part of the statement and is not judged"]
BOUNDS = {'quick': 'length<=3 on 36 rectangles x 3 families (47 988 lists each) + near-miss lists; Netlist path for HALF length<=3',
          'thorough': 'length<=4 (1 727 604 lists) for HALF and DEC1, length<=3 for DEC3; near-miss length 3 complete (1 000 000)'}

NEAR = [F(0), F(1), F(1001, 1000), F(2), F(3)]
FAMS = dict(HALF=FAMILIES['HALF'], DEC1=FAMILIES['DEC1'], DEC3=FAMILIES['DEC3'], NEAR=lambda i: NEAR[i])
# the same alphabets far from the origin: the coordinates are 1e4 times larger than the rectangles, so that the tolerance
# derived from the smallest side (1e-12 * side) is below one ulp of the coordinates
FAMS.update(HALF_FAR=lambda i: FAMILIES['HALF'](i) + 20000, DEC1_FAR=lambda i: FAMILIES['DEC1'](i) + 1000,
            NEAR_FAR=lambda i: NEAR[i] + 20000)
# decimal coordinates 2e5 times the sizes (a block of a few units at (541365.3, ...)): abutting sides computed from
# centre -/+ size/2 differ by an ulp, which is far above 1e-12 * smallest side
FAMS['DEC7_FAR6'] = lambda i: F(5413653, 10) + F(27, 10) * i
# near misses of a few units between rectangles of thousands of units (a design in database units): any tolerance that
# grows faster than linearly with the size of the rectangles swallows them
NEAR_BIG = [F(0), F(2000), F(2003), F(4000), F(6000)]
FAMS['NEAR_BIG'] = lambda i: NEAR_BIG[i]
NPTS = dict(HALF=3, DEC1=3, DEC3=3, NEAR=4, HALF_FAR=3, DEC1_FAR=3, NEAR_FAR=4, DEC7_FAR6=3, NEAR_BIG=4)    # cells per axis


def exact_rect(fam, r):
    f = FAMS[fam]
    return (f(r[0]), f(r[1]), f(r[2]), f(r[3]))


def side(t, r):
    """side of trunk t that r abuts within t's extent, or None (exact rationals)"""
    if xinter(t, r) is not None:
        return None
    if r[1] == t[3] and t[0] <= r[0] and r[2] <= t[2]:
        return 'NORTH'
    if r[3] == t[1] and t[0] <= r[0] and r[2] <= t[2]:
        return 'SOUTH'
    if r[0] == t[2] and t[1] <= r[1] and r[3] <= t[3]:
        return 'EAST'
    if r[2] == t[0] and t[1] <= r[1] and r[3] <= t[3]:
        return 'WEST'
    return None


def is_trunk(ex, i):
    return all(j == i or side(ex[i], ex[j]) is not None for j in range(len(ex)))


def build(fam, lst):
    from frame.geometry.geometry import Rectangle, Point, Shape
    ex = [exact_rect(fam, r) for r in lst]
    rs = []
    for e in ex:
        cx, cy, w, h = center_shape(e)
        rs.append(Rectangle(center=Point(float(cx), float(cy)), shape=Shape(float(w), float(h))))
    return ex, rs


def judge(case, res, ex, before_ids, before_vals, rects, returned, via):
    """compare what recognition did with the oracle"""
    n = len(ex)
    attrs = dict(fam=case['fam'], n=n, via=via, repeated=len(set(ex)) < n)
    exists = any(is_trunk(ex, i) for i in range(n))

    def bad(clause, exp, obs, **extra):
        res.violation(clause, case, dict(attrs, **extra), exp, obs)

    # permutation of the same objects, coordinates untouched
    if sorted(map(id, rects)) != sorted(before_ids):
        bad('permutation', 'the same rectangle objects, reordered', 'objects dropped, duplicated or replaced')
        return exists
    pos = {i: k for k, i in enumerate(before_ids)}
    new_ex = []
    for r in rects:
        k = pos[id(r)]
        if (r.center.x, r.center.y, r.shape.w, r.shape.h) != before_vals[k]:
            bad('altered', before_vals[k], (r.center.x, r.center.y, r.shape.w, r.shape.h))
        new_ex.append(ex[k])
    if bool(returned) != exists:
        bad('sound-complete', exists, returned, dup_of_trunk=bool(returned) and not exists and len(set(ex)) < n)
        return exists
    locs = [r.location.name for r in rects]
    if exists:
        if locs[0] != 'TRUNK' or not is_trunk(new_ex, 0):
            bad('trunk-first', 'a valid trunk first with role TRUNK', [locs[0], [str(v) for v in new_ex[0]]])
        else:
            for k in range(1, n):
                exp = side(new_ex[0], new_ex[k])
                if locs[k] != exp:
                    bad('roles', exp, locs[k], index=k)
    else:
        if any(l != 'NO_POLYGON' for l in locs):
            bad('no-roles', 'NO_POLYGON for every rectangle', locs)
    return exists


def check_case(case, res):
    from frame.geometry.geometry import Rectangle, create_stog
    fam, lst = case['fam'], [tuple(r) for r in case['rects']]
    ex, rects = build(fam, lst)
    smallest = min(min(e[2] - e[0], e[3] - e[1]) for e in ex)
    Rectangle.set_epsilon(float(smallest) * 1e-12)
    ids = [id(r) for r in rects]
    vals = [(r.center.x, r.center.y, r.shape.w, r.shape.h) for r in rects]
    keep = list(rects)     # keep references alive so ids stay unique
    try:
        ret = create_stog(rects)
    except Exception as e:  # noqa
        res.violation('raises', case, dict(fam=fam, n=len(lst), via='direct'), 'a verdict', f'{type(e).__name__}: {e}')
        res.case('raised')
        return
    exists = judge(case, res, ex, ids, vals, rects, ret, 'direct')
    del keep
    if len(set(lst)) < len(lst):
        # repeated rectangles given as the SAME object listed several times (aliases instead of equal copies)
        reset_frame_state()
        ex2, fresh = build(fam, lst)
        Rectangle.set_epsilon(float(smallest) * 1e-12)
        first = {}
        rects2 = [first.setdefault(t, r) for t, r in zip(lst, fresh)]
        ids2 = [id(r) for r in rects2]
        vals2 = [(r.center.x, r.center.y, r.shape.w, r.shape.h) for r in rects2]
        keep2 = list(rects2)
        try:
            ret2 = create_stog(rects2)
        except Exception as e:  # noqa
            res.violation('raises', case, dict(fam=fam, n=len(lst), via='direct-alias'), 'a verdict', f'{type(e).__name__}: {e}')
            ret2 = None
        if ret2 is not None:
            judge(case, res, ex2, ids2, vals2, rects2, ret2, 'direct-alias')
        del keep2
    if case.get('netlist'):
        reset_frame_state()
        check_via_netlist(case, res, fam, lst)
    n = len(lst)
    cand = n >= 2 and any(all(j == i or _touch(ex[i], ex[j]) for j in range(n)) for i in range(n))
    res.case(('stog' if exists else 'near' if cand else 'scattered') + str(n), nontrivial=cand)


def _touch(a, b):
    return max(a[0], b[0]) <= min(a[2], b[2]) and max(a[1], b[1]) <= min(a[3], b[3])


def check_via_netlist(case, res, fam, lst):
    """the same list as the rectangles of a soft module of a loaded netlist"""
    from frame.netlist.netlist import Netlist
    ex = [exact_rect(fam, r) for r in lst]
    vecs = []
    for e in ex:
        cx, cy, w, h = center_shape(e)
        vecs.append([float(cx), float(cy), float(w), float(h)])
    # the module's area is the one of its rectangles (an area out of proportion with them would dictate the tolerance)
    area = sum(v[2] * v[3] for v in vecs)
    tree = {'Modules': {'M': {'area': area, 'rectangles': vecs}}}
    try:
        n = Netlist(tree)
    except Exception as e:  # noqa
        res.violation('raises', case, dict(fam=fam, n=len(lst), via='netlist'), 'a loaded netlist',
                      f'{type(e).__name__}: {e}')
        return
    m = n.get_module('M')
    _judge_module(case, res, fam, lst, m, ex, vecs, 'netlist')
    if len(ex) <= 2:
        # the same rectangles as the shape of a terminal (a pad drawn with rectangles) and of a fixed module: recognition
        # does not depend on the kind of the module
        for kind, node in (('terminal', {'terminal': True, 'rectangles': vecs}), ('fixed', {'fixed': True, 'rectangles': vecs})):
            reset_frame_state()
            try:
                nk = Netlist({'Modules': {'M': node}})
            except Exception:  # noqa  (e.g. overlapping rectangles of a hard module are rejected: not a recognition matter)
                continue
            _judge_module(case, res, fam, lst, nk.get_module('M'), ex, vecs, 'netlist-' + kind)
    if len(ex) >= 2:
        # two-step history: load the module without its last rectangle (recognition runs on load), add the
        # rectangle, ask for recognition again -- the verdict must be the one for the full list
        from frame.geometry.geometry import parse_yaml_rectangle
        reset_frame_state()
        try:
            n2 = Netlist({'Modules': {'M': {'area': area, 'rectangles': vecs[:-1]}}})
            m2 = n2.get_module('M')
            m2.add_rectangle(parse_yaml_rectangle(vecs[-1]))
            n2.create_stogs()
        except Exception as e:  # noqa
            res.violation('raises', case, dict(fam=fam, n=len(lst), via='netlist+add'), 'recognition after add_rectangle',
                          f'{type(e).__name__}: {e}')
            return
        _judge_module(case, res, fam, lst, m2, ex, vecs, 'netlist+add')
        # another history: recognition on load, then the LAST input rectangle is moved IN PLACE by one grid step to the
        # right (as the placement tools move rectangles), then recognition again -> verdict for the moved list
        reset_frame_state()
        try:
            n3 = Netlist({'Modules': {'M': {'area': area, 'rectangles': vecs}}})
            m3 = n3.get_module('M')
            f = FAMS[fam]
            step = float(f(1) - f(0))
            target = next(r for r in m3.rectangles if (r.center.x, r.center.y, r.shape.w, r.shape.h) == tuple(vecs[-1]))
            target.center.x += step
            n3.create_stogs()
        except Exception as e:  # noqa
            res.violation('raises', case, dict(fam=fam, n=len(lst), via='netlist+move'), 'recognition after an in-place move',
                          f'{type(e).__name__}: {e}')
            return
        moved_last = (lst[-1][0] + 1, lst[-1][1], lst[-1][2] + 1, lst[-1][3])
        ex3 = ex[:-1] + [exact_rect(fam, moved_last) if not fam.startswith('NEAR') else None]
        if ex3[-1] is not None:
            vecs3 = vecs[:-1] + [[target.center.x, target.center.y, target.shape.w, target.shape.h]]
            _judge_module(case, res, fam, lst, m3, ex3, vecs3, 'netlist+move')


def _judge_module(case, res, fam, lst, m, ex, vecs, via):
    rects = m.rectangles
    if len(rects) != len(ex):
        res.violation('permutation', case, dict(fam=fam, n=len(lst), via=via), len(ex), len(rects))
        return
    # identify each rectangle with an input index (multiset match on values)
    pool = {}
    for k, v in enumerate(vecs):
        pool.setdefault(tuple(v), []).append(k)
    new_ex = []
    for r in rects:
        key = (r.center.x, r.center.y, r.shape.w, r.shape.h)
        if not pool.get(key):
            res.violation('altered', case, dict(fam=fam, n=len(lst), via=via), 'input rectangles', key)
            return
        new_ex.append(ex[pool[key].pop()])
    exists = any(is_trunk(ex, i) for i in range(len(ex)))
    attrs = dict(fam=fam, n=len(lst), via=via, repeated=len(set(ex)) < len(ex))
    try:
        has = m.has_stog
    except Exception as e:  # noqa  (the report itself must be total)
        res.violation('raises', case, dict(attrs, exc=type(e).__name__), exists, f'has_stog: {type(e).__name__}: {e}')
        return
    if has != exists:
        res.violation('sound-complete', case, dict(attrs, dup_of_trunk=has and not exists and attrs['repeated']),
                      exists, has)
        return
    locs = [r.location.name for r in rects]
    if exists:
        if locs[0] != 'TRUNK' or not is_trunk(new_ex, 0):
            res.violation('trunk-first', case, attrs, 'a valid trunk first', locs)
        else:
            for k in range(1, len(ex)):
                if locs[k] != side(new_ex[0], new_ex[k]):
                    res.violation('roles', case, dict(attrs, index=k), side(new_ex[0], new_ex[k]), locs[k])
    elif any(l != 'NO_POLYGON' for l in locs):
        res.violation('no-roles', case, attrs, 'NO_POLYGON everywhere', locs)


def shards(tier):
    out = []
    for fam in ('HALF', 'DEC1', 'DEC3'):
        L = 3 if (tier == 'quick' or fam == 'DEC3') else 4
        nrect = 36
        for first in range(nrect):
            out.append(dict(fam=fam, L=L, first=first, netlist=(fam == 'HALF')))
    # near-miss family
    for first in range(100):
        out.append(dict(fam='NEAR', L=3, first=first, sub=(tier == 'quick'), netlist=False))
    # far from the origin
    for first in range(36):
        out.append(dict(fam='HALF_FAR', L=3, first=first, netlist=(tier != 'quick')))
        out.append(dict(fam='DEC1_FAR', L=2 if tier == 'quick' else 3, first=first, netlist=True))
    for first in range(100):
        out.append(dict(fam='NEAR_FAR', L=2 if tier == 'quick' else 3, first=first, sub=True, netlist=False))
    for first in range(36):
        out.append(dict(fam='DEC7_FAR6', L=2 if tier == 'quick' else 3, first=first, netlist=True))
    for first in range(100):
        out.append(dict(fam='NEAR_BIG', L=2 if tier == 'quick' else 3, first=first, sub=True, netlist=True))
    return out


def run_shard(shard, tier, res):
    fam, L, first = shard['fam'], shard['L'], shard['first']
    rects = grid_rects(NPTS[fam])
    alphabet = rects
    if shard.get('sub'):
        # quick: length-3 lists only over rectangles that have a side on the 1 / 1.001 lines
        alphabet = [r for r in rects if any(c in (1, 2) for c in r)]
    a = rects[first]
    for n in range(1, L + 1):
        tails = alphabet if (n == 3 and shard.get('sub')) else rects
        if n == 3 and shard.get('sub') and a not in alphabet:
            continue
        for tail in itertools.product(tails, repeat=n - 1):
            lst = (a,) + tail
            reset_frame_state()
            case = dict(fam=fam, rects=[list(r) for r in lst], netlist=bool(shard.get('netlist')) and n <= 3)
            check_case(case, res)
    res.samples.append(dict(fam=fam, rects=[list(a), list(rects[(first * 7 + 3) % len(rects)])]))


replay = replay_via(check_case)
