"""
C19 - Every document FRAME produces is accepted back and says the same thing.

Producers x objects, each enumerated exhaustively over a small alphabet:
  die      Die.write_yaml on every valid die with <=2 regions, before and after refinement
  alloc    Allocation.write_yaml on every allocation reached by the refinement BFS (depth 1)
  netgen   tools.netgen.main for every topology at every size in range, with and without centres
  floorset FloorSetInstance.write_yaml_FPEF / _DIEF on synthetic instances (polygon blocks, pins, constraint flags, weights, density)
  rectio   rect_io.get_netlist on allocation files; rect_io.solution_to_netlist on netlists x box solutions
  legal    legalfloor Model.get_netlist on models built from single-trunk-orthogon netlists, before solving and after each of
           a few real annealing iterations of the legaliser's own loop
Oracle: the reader accepts; the parsed object equals the source in what the format carries; producing twice gives the
identical document; the source object is unchanged by producing.
"""
from __future__ import annotations

import copy
import itertools
import os
import tempfile
from fractions import Fraction as F

from mc import netdocs as nd
from mc.common import reset_frame_state, quiet

ID = 'C19'
LEVEL = 'exploration'
PRELOAD = ['frame.geometry.geometry', 'frame.netlist.netlist', 'frame.die.die', 'frame.allocation.allocation', 'ruamel.yaml', 'mc.common', 'tools.legalfloor.legalfloor', 'tools.netgen.netgen', 'tools.floorset_parser.floor_set_manager.manager', 'tools.rect.rect_io', 'mc.netdocs', 'mc.allocbfs']
RULE = ("producer x object sweep: (die) all valid dies with <=2 regions on a 3x3 grid, families HALF/DEC1, unrefined / split(2,4) / split(1.5,3) / initial grid; "
        "(alloc) every initial state of the C02 exploration and its successors under each refinement operation; (netgen) grid rows,cols in 1..4, chain/star/one-net n in 2..9, "
        "ring n in 3..9, ring-star n in 4..9, htree levels 1..3, grid with centres on 3 dies; (floorset) 1-3 polygon blocks x constraint flags x weights {0,0.5,1,2} x density "
        "{None,0.5} x both terminal modes; (rectio) get_netlist on grid allocations, solution_to_netlist on 2-module netlists x box solutions; (legal) get_netlist on legaliser "
        "models of small orthogon netlists (also flippable, fixed with branches, modules named true / Null / no) with weighted nets; Z- and S-shaped FloorSet blocks; netgen with seeded noise. Every document is produced twice. Non-trivial = documents with at least one region / cell map / net / rectangle; "
        "distinct by construction.")
ASSUMPTIONS = ["documents go through files (the string form of the readers relies on a documented 'contains \": \"' heuristic)",
               "ground regions of a refined die and the fixed flag of allocation cells are not representable in their formats; equality is on what the formats carry",
               "netgen sizes for which the topology is defined: chain, star, one-net n>=2; ring n>=3; ring-star n>=4; grid rows, cols>=1; htree levels>=1"]
BOUNDS = {'quick': 'as in the rule', 'thorough': 'netgen sizes up to 16 / 6x6 / 4 levels; floorset 3 blocks complete flags; more dies'}


class Scratch:
    """a scratch directory whose path is THE SAME for every case of a process (one shard = one process): successive
    documents are written to and read from the same file names, as a flow that overwrites its output files does"""

    def __enter__(self):
        self.d = os.path.join(tempfile.gettempdir(), 'c19.reused')
        os.makedirs(self.d, exist_ok=True)
        return self

    def path(self, name):
        return os.path.join(self.d, name)

    def __exit__(self, *a):
        for f in os.listdir(self.d):
            os.unlink(os.path.join(self.d, f))
        os.rmdir(self.d)


# =========================================================================================== die
def die_snapshot(d):
    return dict(w=d.width, h=d.height,
                regions=sorted((r.center.x, r.center.y, r.shape.w, r.shape.h, r.region) for r in d.blockages + d.specialized_regions),
                ground=sorted((r.center.x, r.center.y, r.shape.w, r.shape.h) for r in d.ground_regions),
                fixed=sorted((r.center.x, r.center.y, r.shape.w, r.shape.h) for r in d.fixed_regions))


def check_die(case, res):
    from frame.die.die import Die
    from mc.props.c11 import build_die
    attrs = dict(producer='die', fam=case['fam'], pre=case.get('pre'))
    reset_frame_state()
    d = build_die(case['fam'], 3, 3, case['items'])
    pre = case.get('pre')
    if pre and d.floorplanning_rectangles()[0]:
        if pre[0] == 'split':
            d.split_refinable_regions(pre[1], pre[2])
        elif not case['items']:
            d.initial_grid(pre[1], pre[2])
    before = die_snapshot(d)
    with Scratch() as s:
        p1, p2 = s.path('die1.yaml'), s.path('die2.yaml')
        try:
            d.write_yaml(p1)
            txt = d.write_yaml()
            d.write_yaml(p2)
        except Exception as e:  # noqa
            res.violation('produce-raises', case, attrs, 'a document', f'{type(e).__name__}: {e}')
            res.case('die')
            return
        t1, t2 = open(p1).read(), open(p2).read()
        if t1 != t2 or t1 != txt:
            res.violation('not-repeatable', case, attrs, t1, t2)
        if die_snapshot(d) != before:
            res.violation('source-changed', case, attrs, 'die unchanged by write_yaml', 'changed')
        reset_frame_state()
        try:
            d2 = Die(p1)
        except Exception as e:  # noqa
            res.violation('reader-rejects', case, attrs, 'Die(document) loads', f'{type(e).__name__}: {e}\n{t1}')
            res.case('die')
            return
        after = die_snapshot(d2)
        if (after['w'], after['h']) != (before['w'], before['h']) or after['regions'] != before['regions']:
            res.violation('says-different', case, attrs, before['regions'], after['regions'])
        # the other carriers the reader documents: the text itself and an open file
        for carrier in ('text', 'handle'):
            reset_frame_state()
            try:
                if carrier == 'text':
                    d3 = Die(txt)
                else:
                    with open(p1) as fh:
                        d3 = Die(fh)
                if die_snapshot(d3) != after:
                    res.violation('says-different', case, dict(attrs, carrier=carrier), after['regions'], die_snapshot(d3)['regions'])
            except Exception as e:  # noqa
                res.violation('reader-rejects', case, dict(attrs, carrier=carrier), f'Die({carrier}) loads', f'{type(e).__name__}: {e}')
    res.case('die', nontrivial=bool(before['regions']))


# =========================================================================================== allocation
def alloc_snapshot(a):
    return [((r.rect.center.x, r.rect.center.y, r.rect.shape.w, r.rect.shape.h, r.rect.region), dict(r.alloc), r.depth,
             bool(r.rect.fixed)) for r in a.allocations]


def check_alloc_obj(case, res, a, attrs):
    from frame.allocation.allocation import Allocation
    before = alloc_snapshot(a)
    with Scratch() as s:
        p1, p2 = s.path('a1.yaml'), s.path('a2.yaml')
        try:
            a.write_yaml(p1)
            a.write_yaml(p2)
        except Exception as e:  # noqa
            res.violation('produce-raises', case, attrs, 'a document', f'{type(e).__name__}: {e}')
            return
        t1, t2 = open(p1).read(), open(p2).read()
        if t1 != t2:
            res.violation('not-repeatable', case, attrs, t1, t2)
        if alloc_snapshot(a) != before:
            res.violation('source-changed', case, attrs, 'allocation unchanged by write_yaml', 'changed')
        try:
            a2 = Allocation(p1)
        except Exception as e:  # noqa
            res.violation('reader-rejects', case, attrs, 'Allocation(document) loads', f'{type(e).__name__}: {e}\n{t1[:300]}')
            return
        got = alloc_snapshot(a2)
        if [g[:3] for g in got] != [b[:3] for b in before]:
            res.violation('says-different', case, attrs, [b[:3] for b in before][:4], [g[:3] for g in got][:4])
        for m in {k for b in before for k in b[1]}:
            if abs(a2.area(m) - a.area(m)) > 1e-12 * max(1.0, abs(a.area(m))):
                res.violation('says-different', case, attrs, a.area(m), a2.area(m))
        # the other carriers the reader documents: the text itself and an open file
        for carrier in ('text', 'handle'):
            try:
                if carrier == 'text':
                    a3 = Allocation(a.write_yaml())
                else:
                    with open(p1) as fh:
                        a3 = Allocation(fh)
                if alloc_snapshot(a3) != got:
                    res.violation('says-different', case, dict(attrs, carrier=carrier), got[:4], alloc_snapshot(a3)[:4])
            except Exception as e:  # noqa
                res.violation('reader-rejects', case, dict(attrs, carrier=carrier, all_empty=all(not b[1] for b in before)),
                              f'Allocation({carrier}) loads', f'{type(e).__name__}: {e}')


def check_alloc(case, res):
    from mc import allocbfs as ab
    attrs = dict(producer='alloc', fam=case['fam'])
    cells = ab.cells_from_desc(case['init'])
    reset_frame_state()
    try:
        a = ab.build_real(cells)
    except Exception:  # noqa  (not an accepted allocation)
        res.case('alloc-init-rejected', nontrivial=False)
        return
    check_alloc_obj(case, res, a, dict(attrs, op=None))
    for op in ab.OPS_QUICK:
        try:
            out = a.refine(op[1], op[2]) if op[0] == 'refine' else a.uniform_refinement_depth() if op[0] == 'uniform' \
                else a.griddify()
        except Exception:  # noqa  (C02's business)
            continue
        check_alloc_obj(dict(case, op=list(op)), res, out, dict(attrs, op=op[0]))
    res.case('alloc', nontrivial=any(c.map for c in cells))


# =========================================================================================== netgen
def expected_netgen(kind, size):
    """independent definition of each topology: (module names, list of (frozenset or tuple of members, weight))"""
    if kind == 'grid':
        r, c = size
        names = [f'M{i}_{j}' for i in range(r) for j in range(c)]
        nets = [((f'M{i}_{j}', f'M{i}_{j + 1}'), 1.0) for i in range(r) for j in range(c - 1)] + \
               [((f'M{i}_{j}', f'M{i + 1}_{j}'), 1.0) for i in range(r - 1) for j in range(c)]
        return names, nets
    n = size[0]
    names = [f'M{i}' for i in range(n)]
    if kind == 'chain':
        return names, [((f'M{i}', f'M{i + 1}'), 1.0) for i in range(n - 1)]
    if kind == 'ring':
        return names, [((f'M{i}', f'M{(i + 1) % n}'), 1.0) for i in range(n)]
    if kind == 'star':
        return names, [(('M0', f'M{i}'), 1.0) for i in range(1, n)]
    if kind == 'one-net':
        return names, [(tuple(names), 1.0)]
    if kind == 'ring-star':
        ring = [((f'M{i}', f'M{i + 1}'), 1.0) for i in range(1, n - 1)] + [((f'M{n - 1}', 'M1'), 1.0)]
        return names, ring + [(('M0', f'M{i}'), 1.0) for i in range(1, n)]
    if kind == 'htree':
        names, nets = [], []
        counter = [0]

        def rec(levels, w):
            c = counter[0]
            counter[0] += 1
            names.append(f'M{c}')
            if levels == 1:
                return c
            left, right = counter[0], counter[0] + 1
            counter[0] += 2
            names.extend([f'M{left}', f'M{right}'])
            nets.append(((f'M{left}', f'M{c}'), w))
            nets.append(((f'M{right}', f'M{c}'), w))
            subs = []
            for _ in range(4):
                sub_index = counter[0]
                nets.append(((f'M{c}', f'M{sub_index}'), w))
                rec(levels - 1, 2 * w)
                subs.append(sub_index)
            nets.append(((f'M{left}', f'M{subs[0]}'), w))
            nets.append(((f'M{left}', f'M{subs[1]}'), w))
            nets.append(((f'M{right}', f'M{subs[2]}'), w))
            nets.append(((f'M{right}', f'M{subs[3]}'), w))
            return c
        rec(n, 1.0)
        return names, nets
    raise ValueError(kind)


def check_netgen(case, res):
    import tools.netgen.netgen as netgen
    from frame.netlist.netlist import Netlist
    kind, size = case['type'], case['size']
    attrs = dict(producer='netgen', type=kind)
    with Scratch() as s:
        outs = []
        for k in (1, 2):
            p = s.path(f'n{k}.yaml')
            args = ['-o', p, '--type', kind, '--size'] + [str(x) for x in size]
            if case.get('die'):
                args += ['--add-centers', '--die', case['die']]
            if case.get('noise'):
                # seeded noise on the centres: a producer given a seed (any integer, 0 included) is repeatable
                args += ['--add-noise', str(case['noise']), '--seed', str(case['seed'])]
            try:
                with quiet():
                    netgen.main('netgen', args)
            except (Exception, SystemExit) as e:  # noqa
                res.violation('produce-raises', case, attrs, 'a document', f'{type(e).__name__}: {e}')
                res.case('netgen')
                return
            outs.append(open(p).read())
        if outs[0] != outs[1]:
            res.violation('not-repeatable', case, attrs, outs[0][:200], outs[1][:200])
        reset_frame_state()
        try:
            n = Netlist(s.path('n1.yaml'))
        except Exception as e:  # noqa
            res.violation('reader-rejects', case, attrs, 'Netlist(document) loads', f'{type(e).__name__}: {e}')
            res.case('netgen')
            return
    names, nets = expected_netgen(kind, size)
    got_names = [m.name for m in n.modules]
    if sorted(got_names) != sorted(names) or len(set(got_names)) != len(got_names):
        res.violation('says-different', case, dict(attrs, what='modules'), names, got_names)
    if any(m.area() != 1 or not m.is_soft or m.num_rectangles for m in n.modules):
        res.violation('says-different', case, dict(attrs, what='module-attributes'), 'soft modules of area 1', 'differs')
    want = sorted((tuple(sorted(m)) if len(m) == 2 else tuple(m), w) for m, w in nets)
    got = sorted((tuple(sorted(b.name for b in e.modules)) if len(e.modules) == 2 else tuple(b.name for b in e.modules),
                  e.weight) for e in n.edges)
    if want != got:
        res.violation('says-different', case, dict(attrs, what='nets'), want[:6], got[:6])
    if case.get('die'):
        W, H = [float(x) for x in case['die'].split('x')]
        r, c = size
        for i in range(r):
            for j in range(c):
                try:
                    m = n.get_module(f'M{i}_{j}')
                except AssertionError:
                    continue            # (missing module already reported above)
                ex, ey = (0.5 + j) * W / c, (0.5 + i) * H / r
                if case.get('noise'):
                    # noisy centres: present, finite, within 8 standard deviations (relative to the die) of the grid position
                    if m.center is None or not (abs(m.center.x - ex) <= 8 * case['noise'] * W and abs(m.center.y - ey) <= 8 * case['noise'] * H):
                        res.violation('says-different', case, dict(attrs, what='noisy-centres'), [ex, ey], repr(m.center))
                    continue
                if m.center is None or abs(m.center.x - ex) > 1e-9 * W or abs(m.center.y - ey) > 1e-9 * H:
                    res.violation('says-different', case, dict(attrs, what='centres'), [ex, ey], repr(m.center))
    res.case('netgen:' + kind, nontrivial=bool(nets))


# =========================================================================================== FloorSet
POLYS = {
    'rect': [(0, 0), (2, 0), (2, 1), (0, 1)],
    'L': [(0, 0), (2, 0), (2, 1), (1, 1), (1, 2), (0, 2)],
    'T': [(0, 0), (3, 0), (3, 1), (2, 1), (2, 2), (1, 2), (1, 1), (0, 1)],
    'plus': [(1, 0), (2, 0), (2, 1), (3, 1), (3, 2), (2, 2), (2, 3), (1, 3), (1, 2), (0, 2), (0, 1), (1, 1)],
}
# Z and S: a trunk column whose first row has a branch on one side only and whose last row has one on the other side
POLYS['Z'] = [(1, 0), (3, 0), (3, 1), (2, 1), (2, 3), (0, 3), (0, 2), (1, 2)]
POLYS['S'] = [(0, 0), (2, 0), (2, 2), (3, 2), (3, 3), (1, 3), (1, 1), (0, 1)]
POLY_AREA = {'rect': 2, 'L': 3, 'T': 4, 'plus': 5, 'Z': 5, 'S': 5}
POLY_NRECT = {'rect': 1, 'L': 2, 'T': 2, 'plus': 3, 'Z': 3, 'S': 3}


def _inside_poly(pts, x, y):
    """point-in-polygon (even-odd rule) for a point that is not on the boundary"""
    n, c = len(pts), False
    for i in range(n):
        (x1, y1), (x2, y2) = pts[i], pts[(i + 1) % n]
        if (y1 > y) != (y2 > y) and x < x1 + (y - y1) * (x2 - x1) / (y2 - y1):
            c = not c
    return c


def floorset_instance(case):
    import numpy as np
    blocks = case['blocks']           # list of (poly name, hard flag, fixed flag)
    nb = len(blocks)
    maxv = 12
    vb = -np.ones((nb, maxv, 2))
    step = case.get('step', 1.0)
    for i, (pn, _, _) in enumerate(blocks):
        pts = POLYS[pn]
        if case.get('cw'):
            pts = list(reversed(pts))
        for k, (x, y) in enumerate(pts):
            vb[i, k, 0] = (x + 4 * i + 0.5) * step
            vb[i, k, 1] = (y + 0.5) * step
    area = np.array([POLY_AREA[pn] * step * step for pn, _, _ in blocks], dtype=float)
    pc = np.zeros((nb, 5))
    for i, (_, hard, fixed) in enumerate(blocks):
        pc[i, 0], pc[i, 1] = hard, fixed
    pins = np.array(case['pins'], dtype=float) * step
    b2b = np.array([[i, j, w] for (i, j, w) in case['b2b']], dtype=float).reshape(-1, 3)
    p2b = np.array([[p, b, w] for (p, b, w) in case['p2b']], dtype=float).reshape(-1, 3)
    metrics = np.array([float(area.sum()), len(pins), len(b2b) + len(p2b), len(b2b), len(p2b), 0, 0, 0], dtype=float)
    return dict(area_blocks=area, b2b_connectivity=b2b, p2b_connectivity=p2b, pins_pos=pins, placement_constraints=pc,
                vertex_blocks=vb, metrics=metrics)


def check_floorset(case, res):
    from frame.die.die import Die
    from frame.netlist.netlist import Netlist
    from tools.floorset_parser.floor_set_manager.manager import FloorSetInstance
    attrs = dict(producer='floorset', tam=case['tam'], density=case['density'])
    data = floorset_instance(case)
    reset_frame_state()
    try:
        inst = FloorSetInstance(data, case['density'], case['tam'])
    except Exception as e:  # noqa
        res.violation('produce-raises', case, attrs, 'a document', f'{type(e).__name__}: {e}')
        res.case('floorset')
        return
    with Scratch() as s:
        docs = []
        for k in (1, 2):
            try:
                inst.write_yaml_FPEF(s.path(f'f{k}.yaml'))
                inst.write_yaml_DIEF(s.path(f'd{k}.yaml'))
            except Exception as e:  # noqa
                res.violation('produce-raises', case, attrs, 'a document', f'{type(e).__name__}: {e}')
                res.case('floorset')
                return
            docs.append((open(s.path(f'f{k}.yaml')).read(), open(s.path(f'd{k}.yaml')).read()))
        if docs[0] != docs[1]:
            res.violation('not-repeatable', case, attrs, docs[0][0][-300:], docs[1][0][-300:])
        reset_frame_state()
        try:
            n = Netlist(s.path('f1.yaml'))
            d = Die(s.path('d1.yaml'), n)
        except Exception as e:  # noqa
            res.violation('reader-rejects', case, attrs, 'Netlist / Die load the documents', f'{type(e).__name__}: {e}')
            res.case('floorset')
            return
    step = case.get('step', 1.0)
    blocks = case['blocks']
    for i, (pn, hard, fixed) in enumerate(blocks):
        m = n.get_module(f'M{i}')
        kind = (m.is_fixed, m.is_hard and not m.is_fixed, m.is_soft)
        want = (bool(fixed), bool(hard) and not fixed, not hard and not fixed)
        if kind != want:
            res.violation('says-different', case, dict(attrs, what='kind'), want, kind)
        ra = sum(r.area for r in m.rectangles)
        if abs(ra - POLY_AREA[pn] * step * step) > 1e-9 * step * step or m.num_rectangles != POLY_NRECT[pn]:
            res.violation('says-different', case, dict(attrs, what='shape'), POLY_AREA[pn] * step * step, ra)
        # the rectangles lie inside the polygon (unit cells of the block's own grid: centre of every covered cell inside it)
        pts = [((x + 4 * i + 0.5) * step, (y + 0.5) * step) for (x, y) in POLYS[pn]]
        for r in m.rectangles:
            x0, y0 = r.center.x - r.shape.w / 2, r.center.y - r.shape.h / 2
            nx_, ny_ = round(r.shape.w / step), round(r.shape.h / step)
            if abs(nx_ * step - r.shape.w) > 1e-9 * step or abs(ny_ * step - r.shape.h) > 1e-9 * step or \
                    not all(_inside_poly(pts, x0 + (a + 0.5) * step, y0 + (b + 0.5) * step) for a in range(nx_) for b in range(ny_)):
                res.violation('says-different', case, dict(attrs, what='shape-outside-polygon'), pn, repr(r))
        if m.is_soft and abs(m.area() - POLY_AREA[pn] * step * step) > 1e-9:
            res.violation('says-different', case, dict(attrs, what='area'), POLY_AREA[pn] * step * step, m.area())
    pins = case['pins']
    for k, (px, py) in enumerate(pins):
        t = n.get_module(f'T{k}')
        if not case['tam']:
            if not t.is_terminal or t.center is None or abs(t.center.x - px * step) > 1e-9 or abs(t.center.y - py * step) > 1e-9:
                res.violation('says-different', case, dict(attrs, what='terminal'), [px * step, py * step], repr(t.center))
        else:
            c = t.center
            if not t.is_fixed or c is None or abs(c.x - px * step) > 2.1e-3 or abs(c.y - py * step) > 2.1e-3:
                res.violation('says-different', case, dict(attrs, what='terminal-module'), [px * step, py * step], repr(c))
    alpha = inst._alpha
    want = [((f'M{int(i)}', f'M{int(j)}'), (w * alpha if w * alpha > 0 else 1.0)) for (i, j, w) in case['b2b']] + \
           [((f'T{int(p)}', f'M{int(b)}'), (w * alpha if w * alpha > 0 else 1.0)) for (p, b, w) in case['p2b']]
    got = [(tuple(b.name for b in e.modules), e.weight) for e in n.edges]
    if len(want) != len(got) or any(a[0] != b[0] or abs(a[1] - b[1]) > 1e-9 for a, b in zip(want, got)):
        res.violation('says-different', case, dict(attrs, what='nets'), want, got)
    if case['density'] is None and abs(alpha - 1) > 0:
        res.violation('says-different', case, dict(attrs, what='weights'), 1, alpha)
    if abs(d.width - max(p[0] for p in pins) * step) > 1e-9 or abs(d.height - max(p[1] for p in pins) * step) > 1e-9:
        res.violation('says-different', case, dict(attrs, what='die'), [max(p[0] for p in pins) * step], [d.width, d.height])
    res.case('floorset', nontrivial=True)


# =========================================================================================== rect_io
def check_rectio_get(case, res):
    """rect_io.get_netlist(None, allocation file): the netlist of the allocation's modules"""
    import tools.rect.rect_io as rio
    from frame.allocation.allocation import Allocation
    from ruamel.yaml import YAML
    attrs = dict(producer='rectio.get_netlist')
    nx, ny, step = case['nx'], case['ny'], case['step']
    doc = []
    k = 0
    for j in range(ny):
        for i in range(nx):
            mp = {}
            for name, ratios in case['mods'].items():
                r = ratios[k % len(ratios)]
                if r > 0:
                    mp[name] = r
            doc.append([[(i + 0.5) * step, (j + 0.5) * step, step, step], mp])
            k += 1
    with Scratch() as s:
        p = s.path('alloc.yaml')
        with open(p, 'w') as f:
            YAML().dump(doc, f)
        reset_frame_state()
        try:
            n1 = rio.get_netlist(None, p)
            n2 = rio.get_netlist(None, p)
        except Exception as e:  # noqa
            res.violation('reader-rejects', case, attrs, 'the emitted netlist loads', f'{type(e).__name__}: {e}')
            res.case('rectio-get')
            return
        a = Allocation(p)
    if n1.write_yaml() != n2.write_yaml():
        res.violation('not-repeatable', case, attrs, 'identical netlists', 'differ')
    names = [m.name for m in n1.modules]
    want = sorted({m for c in doc for m in c[1]})
    if sorted(names) != want:
        res.violation('says-different', case, dict(attrs, what='modules'), want, names)
    else:
        for m in n1.modules:
            if abs(m.area() - a.area(m.name)) > 1e-9 * max(1.0, a.area(m.name)) or m.center is None or \
                    abs(m.center.x - a.center(m.name).x) > 1e-9 * nx * step or abs(m.center.y - a.center(m.name).y) > 1e-9 * ny * step:
                res.violation('says-different', case, dict(attrs, what='area-centre'), [a.area(m.name), repr(a.center(m.name))],
                              [m.area(), repr(m.center)])
    res.case('rectio-get', nontrivial=True)


BOXSETS = [[[1.0, 1.0, 2.0, 2.0]], [[1.0, 1.0, 2.0, 2.0], [2.5, 1.0, 1.0, 1.0]], [[0.15, 0.35, 0.3, 0.1], [0.15, 0.45, 0.1, 0.1], [0.15, 0.25, 0.2, 0.1]]]


def check_rectio_sol(case, res):
    """rect_io.solution_to_netlist(netlist, boxes) -> Netlist"""
    import tools.rect.rect_io as rio
    from frame.netlist.netlist import Netlist
    attrs = dict(producer='rectio.solution_to_netlist', variants=[nd.VARIANTS[i][0] for i in case['mods']])
    doc = nd.build_doc(tuple(case['mods']), [(tuple(m), w) for m, w in case['nets']])
    boxes_of = dict(case['boxes'])
    if case.get('names'):
        # valid module names that a YAML reader resolves to something else when they are written unquoted
        ren = dict(zip(list(doc['Modules']), case['names']))
        doc = {'Modules': {ren[k]: v for k, v in doc['Modules'].items()},
               'Nets': [[ren.get(x, x) if isinstance(x, str) else x for x in e] for e in doc['Nets']]}
        boxes_of = {ren[k]: v for k, v in boxes_of.items()}
        attrs['names'] = case['names']
    reset_frame_state()
    n = Netlist(copy.deepcopy(doc))
    before = nd.loaded_model(n)
    result = {}
    for nm, bi in boxes_of.items():
        if n.get_module(nm).is_soft:
            result[nm] = [tuple(b) for b in BOXSETS[bi]]
    try:
        t1 = rio.solution_to_netlist(n, result)
        t2 = rio.solution_to_netlist(n, result)
    except Exception as e:  # noqa
        # a soft module without rectangles, centre or solution cannot be described by this writer: a refusal, not a document
        res.counters['rectio-refuses:' + type(e).__name__] += 1
        res.case('rectio-sol-refused', nontrivial=False)
        return
    if t1 != t2:
        res.violation('not-repeatable', case, attrs, t1, t2)
    if nd.loaded_model(n) != before:
        res.violation('source-changed', case, attrs, 'netlist unchanged', 'changed')
    reset_frame_state()
    try:
        n2 = Netlist(t1)
    except Exception as e:  # noqa
        res.violation('reader-rejects', case, attrs, 'Netlist(document) loads', f'{type(e).__name__}: {e}\n{t1}')
        res.case('rectio-sol')
        return
    after = nd.loaded_model(n2)
    exp = copy.deepcopy(before)
    for nm, boxes in result.items():
        e = exp['modules'][nm]
        e['rects'] = [dict(cx=b[0], cy=b[1], w=b[2], h=b[3], region='_', fixed=False, hard=False) for b in boxes]
        A = sum(b[2] * b[3] for b in boxes)
        e['centre'] = (sum(b[0] * b[2] * b[3] for b in boxes) / A, sum(b[1] * b[2] * b[3] for b in boxes) / A)
    for nm in exp['order']:
        e = exp['modules'][nm]
        # what the format of this writer carries: kind, total area, shape (rectangles or centre), nets with weights
        e['area_regions'] = {'_': e['area']}
        e['ar'] = None
        for r in e['rects']:
            r['region'] = '_'
        after['modules'][nm]['area_regions'] = {'_': after['modules'][nm]['area']}
    for (field, ev, gv) in nd.compare_models(exp, after):
        res.violation('says-different', case, dict(attrs, what=field), ev, gv)
    res.case('rectio-sol', nontrivial=True)


# =========================================================================================== legaliser
LEGAL_MODS = {
    'soft1': {'area': 4, 'rectangles': [[2, 2, 2, 2]]},
    'softN': {'area': 5, 'rectangles': [[2, 2, 2, 2], [2, 3.5, 1, 1]]},
    'hard1': {'hard': True, 'rectangles': [[6, 2, 2, 1]]},
    'hardE': {'hard': True, 'rectangles': [[6, 5, 2, 2], [7.5, 5, 1, 1]]},
    'fixed1': {'fixed': True, 'rectangles': [[2, 6.5, 1, 1]]},
    'hardE_flip': {'hard': True, 'flip': True, 'rectangles': [[6, 5, 2, 2], [7.5, 5, 1, 1]]},
    # fixed modules with branches (a trunk and one / two branches)
    'fixedN': {'fixed': True, 'rectangles': [[4.5, 6.5, 2, 1], [4.5, 7.25, 1, 0.5]]},
    'fixedNW': {'fixed': True, 'rectangles': [[4.5, 6.5, 2, 1], [4.5, 7.25, 1, 0.5], [3.25, 6.5, 0.5, 0.5]]},
}


def check_legal(case, res):
    import tools.legalfloor.legalfloor as lf
    from frame.netlist.netlist import Netlist
    attrs = dict(producer='legalfloor.get_netlist', mods=case['mods'])
    names = case.get('names') or [f'M{i}' for i in range(len(case['mods']))]
    doc = {'Modules': {names[i]: copy.deepcopy(LEGAL_MODS[k]) for i, k in enumerate(case['mods'])},
           'Nets': [[names[i] for i in mem] + ([w] if w != 1 else []) for mem, w in case['nets']]}
    reset_frame_state()
    n = Netlist(copy.deepcopy(doc))
    before = nd.loaded_model(n)
    try:
        with quiet():
            ml, al, xl, yl, wl, hl, hyper, og = lf.netlist_to_utils(n)
            model = lf.Model(ml, al, xl, yl, wl, hl, 8.0, 8.0, hyper, 3.0, og, 0.9, 0.3, 1.0, None, {m_.name for m_ in n.modules if m_.flip})   # as legalfloor.main builds it
            n1 = model.get_netlist()
            t1 = n1.write_yaml()
            t2 = model.get_netlist().write_yaml()
    except Exception as e:  # noqa
        res.violation('reader-rejects', case, attrs, 'the emitted netlist loads', f'{type(e).__name__}: {e}')
        res.case('legal')
        return
    if t1 != t2:
        res.violation('not-repeatable', case, attrs, t1, t2)
    after = nd.loaded_model(n1)
    exp = copy.deepcopy(before)
    for nm in exp['order']:
        exp['modules'][nm]['ar'] = None         # (aspect-ratio bounds are not among the things C19 lists; 'flippable' is a kind)
    for (field, ev, gv) in nd.compare_models(exp, after):
        res.violation('says-different', case, dict(attrs, what=field), ev, gv)
    res.case('legal', nontrivial=True)


def check_legal_solved(case, res):
    """the legaliser's own loop (build, solve, verify, get_netlist -> netlist_to_utils) for a few annealing iterations:
    every emitted netlist must be accepted by the reader and describe the model's state"""
    import tools.legalfloor.legalfloor as lf
    from frame.netlist.netlist import Netlist
    attrs = dict(producer='legalfloor.solved', mods=case['mods'])
    names = case.get('names') or [f'M{i}' for i in range(len(case['mods']))]
    doc = {'Modules': {names[i]: copy.deepcopy(LEGAL_MODS[k]) for i, k in enumerate(case['mods'])},
           'Nets': [[names[i] for i in mem] + ([w] if w != 1 else []) for mem, w in case['nets']]}
    reset_frame_state()
    n = Netlist(copy.deepcopy(doc))
    before = nd.loaded_model(n)
    try:
        with quiet():
            ml, al, xl, yl, wl, hl, hyper, og = lf.netlist_to_utils(n)
            model = lf.Model(ml, al, xl, yl, wl, hl, 8.0, 8.0, hyper, 3.0, og, 0.9, 0.3, 1.0, None, {m_.name for m_ in n.modules if m_.flip})   # as legalfloor.main builds it
            lf.turn_off_flag(1)
            model.apply_objective_function()
    except Exception as e:  # noqa
        res.violation('produce-raises', case, attrs, 'a model', f'{type(e).__name__}: {e}')
        res.case('legal-solved')
        return
    for it in range(case['iters']):
        try:
            with quiet():
                model.set_fixed_t(it + 1)
                model.build_model(False, 1)
                model.solve(False, False, 1)
                model.force_enforce = model.gekko.verify(model.force_enforce, False)
        except Exception as e:  # noqa  (a solver failure produces no document)
            res.counters['legal-solver-failed:' + type(e).__name__] += 1
            break
        try:
            with quiet():
                net = model.get_netlist()
        except Exception as e:  # noqa
            res.violation('reader-rejects', case, dict(attrs, iteration=it), 'the netlist emitted after a solve loads',
                          f'{type(e).__name__}: {e}')
            break
        after = nd.loaded_model(net)
        if after['order'] != before['order'] or after['nets'] != before['nets']:
            res.violation('says-different', case, dict(attrs, what='modules-nets', iteration=it), before['nets'], after['nets'])
        for mi, nm in enumerate(before['order']):
            b, a = before['modules'][nm], after['modules'][nm]
            if (b['hard'], b['fixed']) != (a['hard'], a['fixed']):
                res.violation('says-different', case, dict(attrs, what='kind', iteration=it), (b['hard'], b['fixed']), (a['hard'], a['fixed']))
            # the document describes the model's state
            mm = model.M[mi]
            state = sorted((round(mm.x[j].evaluate(), 9), round(mm.y[j].evaluate(), 9), round(mm.w[j].evaluate(), 9),
                            round(mm.h[j].evaluate(), 9)) for j in range(len(mm.x)))
            docr = sorted((round(r['cx'], 9), round(r['cy'], 9), round(r['w'], 9), round(r['h'], 9)) for r in a['rects'])
            if state != docr:
                res.violation('says-different', case, dict(attrs, what='rectangles-vs-model', iteration=it), state, docr)
            if b['hard']:
                # a hard module comes back congruent (fixed: at its place)
                t0 = b['rects'][0]
                ok = len(a['rects']) == len(b['rects'])
                if ok:
                    ta = next((r for r in a['rects'] if abs(r['w'] - t0['w']) < 1e-6 and abs(r['h'] - t0['h']) < 1e-6), None)
                    ok = ta is not None
                if ok:
                    for r0 in b['rects']:
                        if not any(abs(r['w'] - r0['w']) < 1e-6 and abs(r['h'] - r0['h']) < 1e-6 and
                                   abs((r['cx'] - ta['cx']) - (r0['cx'] - t0['cx'])) < 1e-6 and
                                   abs((r['cy'] - ta['cy']) - (r0['cy'] - t0['cy'])) < 1e-6 for r in a['rects']):
                            ok = False
                    if b['fixed'] and (abs(ta['cx'] - t0['cx']) > 1e-6 or abs(ta['cy'] - t0['cy']) > 1e-6):
                        ok = False
                if not ok:
                    res.violation('says-different', case, dict(attrs, what='hard-shape', iteration=it),
                                  [(r['cx'], r['cy'], r['w'], r['h']) for r in b['rects']],
                                  [(r['cx'], r['cy'], r['w'], r['h']) for r in a['rects']])
        with quiet():
            model.set_ml(lf.netlist_to_utils(net)[0])
            model.time_advance(1)
    res.case('legal-solved', nontrivial=True)


# =========================================================================================== dispatch
def check_case(case, res):
    {'die': check_die, 'alloc': check_alloc, 'netgen': check_netgen, 'floorset': check_floorset,
     'rectio_get': check_rectio_get, 'rectio_sol': check_rectio_sol, 'legal': check_legal, 'legal_solved': check_legal_solved}[case['kind']](case, res)


def netgen_cases(tier):
    hi = 9 if tier == 'quick' else 16
    g = 4 if tier == 'quick' else 6
    out = []
    for r in range(1, g + 1):
        for c in range(1, g + 1):
            out.append(dict(kind='netgen', type='grid', size=[r, c]))
            if (r, c) != (1, 1) or True:
                for die in ('4x4', '10.5x2.5', '0.3x0.7'):
                    if r <= 3 and c <= 3:
                        out.append(dict(kind='netgen', type='grid', size=[r, c], die=die))
    for (r, c) in ((2, 2), (3, 2), (1, 3)):
        for seed in (0, 7, -3):
            out.append(dict(kind='netgen', type='grid', size=[r, c], die='4x4', noise=0.05, seed=seed))
    for t, lo in (('chain', 2), ('star', 2), ('one-net', 2), ('ring', 3), ('ring-star', 4)):
        for n in range(lo, hi + 1):
            out.append(dict(kind='netgen', type=t, size=[n]))
    for lv in range(1, 4 if tier == 'quick' else 5):
        out.append(dict(kind='netgen', type='htree', size=[lv]))
    return out


def floorset_cases(tier):
    out = []
    flagsets = [(0, 0), (1, 0), (0, 1)]
    polys = list(POLYS)
    pinsets = [[(0, 0), (12, 4)], [(0, 2), (12, 0), (6, 4)], [(12, 4)]]
    for nb in (1, 2, 3):
        for pcomb in itertools.product(polys, repeat=nb):
            if tier == 'quick' and nb == 3 and pcomb not in (('rect', 'L', 'T'), ('plus', 'rect', 'L'), ('T', 'plus', 'plus'), ('Z', 'S', 'L')):
                continue
            if tier == 'quick' and nb == 2 and polys.index(pcomb[0]) > polys.index(pcomb[1]):
                continue
            for fcomb in itertools.product(flagsets, repeat=nb):
                if nb == 3 and len(set(fcomb)) == 1 and fcomb[0] != (0, 0):
                    continue
                if tier == 'quick' and nb == 3 and fcomb not in (((0, 0),) * 3, ((1, 0), (0, 1), (0, 0)), ((0, 1), (0, 0), (1, 0)),
                                                                ((0, 0), (1, 0), (0, 1)), ((0, 1), (0, 1), (0, 0))):
                    continue
                blocks = [[p, f[0], f[1]] for p, f in zip(pcomb, fcomb)]
                for pi, pins in enumerate(pinsets):
                    if tier == 'quick' and ((nb + pi) % 2 or (nb == 3 and pi != 1) or (nb == 2 and pcomb[0] == pcomb[1] and pi)):
                        continue
                    for wi, w in enumerate((0, 0.5, 1, 2)):
                        b2b = [(i, j, w) for i in range(nb) for j in range(i + 1, nb)]
                        p2b = [(p, p % nb, (w if p % 2 == 0 else 1.5)) for p in range(len(pins))]
                        if not any(x[2] > 0 for x in b2b + p2b):
                            p2b[0] = (p2b[0][0], p2b[0][1], 0.25)     # density scaling is undefined when every weight is 0
                        for density in (None, 0.5):
                            for tam in (False, True):
                                if tam and (wi or density):
                                    continue
                                out.append(dict(kind='floorset', blocks=blocks, pins=[list(p) for p in pins], b2b=b2b, p2b=p2b,
                                                density=density, tam=tam, cw=bool((nb + wi) % 2), step=(1.0 if wi % 2 == 0 else 0.1)))
    return out


def rectio_cases(tier):
    out = []
    for (nx, ny) in ((1, 1), (2, 1), (2, 2), (3, 2)):
        for step in (1.0, 0.1, 2.5):
            for mods in ({'A': [1.0]}, {'A': [0.5, 0.0, 1.0], 'B': [0.5, 1.0, 0.0]}, {'A': [0.3, 0.7], 'B': [0.0, 0.2, 0.1], 'C': [0.25]}):
                out.append(dict(kind='rectio_get', nx=nx, ny=ny, step=step, mods=mods))
    n = len(nd.VARIANTS)
    for a in range(n):
        for b in range(n):
            for nets in ([], [[[0, 1], None]], [[[0, 1], 2]], [[[0, 1], 0.5]]):
                for bi in range(len(BOXSETS)):
                    if (a + b + bi) % 3 and tier == 'quick':
                        continue
                    out.append(dict(kind='rectio_sol', mods=[a, b], nets=nets, boxes={'M0': bi, 'M1': (bi + 1) % len(BOXSETS)}))
    for names in (['true', 'Null'], ['NULL', 'False'], ['yes', 'n'], ['e1', '_1']):
        for (a, b) in ((nd.VIDX['s_ctr'], nd.VIDX['h_stog']), (nd.VIDX['s_rect'], nd.VIDX['t_ctr'])):
            out.append(dict(kind='rectio_sol', mods=[a, b], nets=[[[0, 1], 2]], boxes={'M0': 0, 'M1': 1}, names=names))
    return out


def legal_cases(tier):
    out = []
    keys = list(LEGAL_MODS)
    for a, b in itertools.combinations(keys, 2):
        for w in (1, 2, 0.5):
            out.append(dict(kind='legal', mods=[a, b], nets=[[[0, 1], w]]))
    out.append(dict(kind='legal', mods=['soft1', 'hard1', 'fixed1'], nets=[[[0, 1, 2], 2.5], [[0, 2], 1]]))
    out.append(dict(kind='legal', mods=['softN', 'hardE'], nets=[]))
    out.append(dict(kind='legal', mods=['soft1', 'hard1'], nets=[[[0, 1], 2]], names=['true', 'Null']))
    out.append(dict(kind='legal', mods=['softN', 'fixed1'], nets=[[[0, 1], 1]], names=['NULL', 'no']))
    solved = [(['soft1', 'hardE'], [[[0, 1], 2]]), (['softN', 'hard1', 'fixed1'], [[[0, 1, 2], 2.5], [[0, 2], 1]]),
              (['softN', 'hardE', 'fixed1'], [[[0, 1], 1], [[1, 2], 0.5]]), (['soft1', 'softN'], [[[0, 1], 1]]),
              (['hard1', 'hardE'], [[[0, 1], 3]]), (['soft1', 'fixedN'], [[[0, 1], 1]])]
    solved = solved[:3] + solved[5:] + solved[3:5]
    for mods, nets in solved[:(4 if tier == 'quick' else 6)]:
        out.append(dict(kind='legal_solved', mods=mods, nets=nets, iters=(2 if tier == 'quick' else 5)))
    return out


def shards(tier):
    from mc.props.c11 import die_descriptions
    from mc import allocbfs as ab
    out = []
    nd_ = len(die_descriptions(3, 3, 2))
    for fam in ('HALF', 'DEC1'):
        for lo in range(0, nd_, 60):
            out.append(dict(kind='die', fam=fam, lo=lo, hi=min(nd_, lo + 60)))
    plan = [('HALF', 3, 2, 2, False), ('DEC1', 2, 2, 2, False)] if tier == 'quick' else [('HALF', 3, 2, 3, True), ('DEC1', 3, 2, 2, True), ('DEC3', 2, 3, 3, False)]
    for (fam, nx, ny, kmax, rich) in plan:
        n = len(ab.layouts(nx, ny, kmax))
        for lo in range(0, n, 8):
            out.append(dict(kind='alloc', fam=fam, nx=nx, ny=ny, kmax=kmax, rich=rich, lo=lo, hi=min(n, lo + 8)))
    for name, cases in (('netgen', netgen_cases(tier)), ('floorset', floorset_cases(tier)), ('rectio', rectio_cases(tier)),
                        ('legal', legal_cases(tier))):
        step = 40 if name != 'legal' else 4
        for lo in range(0, len(cases), step):
            out.append(dict(kind='list', name=name, lo=lo, hi=min(len(cases), lo + step)))
    return out


def run_shard(shard, tier, res):
    k = shard['kind']
    if k == 'die':
        from mc.props.c11 import die_descriptions
        for items in die_descriptions(3, 3, 2)[shard['lo']:shard['hi']]:
            pres = (None, ['split', 2.0, 4], ['split', 1.5, 3], ['grid', 2, 3]) if (tier != 'quick' or len(items) <= 1) else (None, ['split', 1.5, 3])
            for pre in pres:
                if pre and pre[0] == 'grid' and items:
                    continue
                check_case(dict(kind='die', fam=shard['fam'], items=[[list(a), kd] for a, kd in items], pre=pre), res)
        res.samples.append(dict(kind='die', fam=shard['fam'], items=[[[0, 0, 1, 2], 'dsp']], pre=['split', 2.0, 4]))
    elif k == 'alloc':
        from mc import allocbfs as ab
        for cells in ab.shard_states(shard):
            check_case(dict(kind='alloc', fam=shard['fam'], init=ab.describe_cells(cells)), res)
    else:
        cases = {'netgen': netgen_cases, 'floorset': floorset_cases, 'rectio': rectio_cases, 'legal': legal_cases}[shard['name']](tier)
        for case in cases[shard['lo']:shard['hi']]:
            check_case(case, res)
        res.samples.append(cases[shard['lo']])


def replay(case):
    from mc.engine import ShardResult
    res = ShardResult()
    check_case(case, res)
    return res.violations
