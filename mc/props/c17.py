"""
C17 - Disc-overlap area is total, symmetric, bounded and accurate.

Enumerated: all ordered pairs from a radius alphabet x centre distances within +-J ulp of r1+r2,
|r1-r2|, 0 and interior points x 4 directions x 2 offsets; both argument orders.
Oracle: lens area evaluated with mpmath (60 digits) on the very float inputs handed to FRAME.
"""
from __future__ import annotations

import math

from mc.common import replay_via

ID = 'C17'
LEVEL = 'exploration'
PRELOAD = ['frame.geometry.geometry', 'frame.netlist.netlist', 'frame.die.die', 'frame.allocation.allocation', 'ruamel.yaml', 'mc.common', 'tools.force.fruchterman_reingold', 'mpmath']
RULE = ("radius pairs (r1,r2) from {1,0.1,0.3,1/3,2.5,7,1e-3,1e3,123.456,1e-9} (all 100 ordered pairs) and almost equal pairs (r, r*(1+g)), g in {1 ulp, 1e-12 .. 1e-4}, x base distance in "
        "{r1+r2, |r1-r2|, 0, (r1+r2)/2, r1, r2, sqrt(|r1^2-r2^2|)} x ulp offsets -J..J x 4 directions x 2 origins, plus relative neighbourhoods base*(1+k*10^-e), e=4..7, |k|<=4, all evaluated in one process per radius pair (so a stale cache or coarse rounding shows); a case is "
        "non-trivial when the exact configuration is a proper lens or within 1e-9*max(r) of a tangency; cases are distinct inputs")
ASSUMPTIONS = ["the oracle is the closed-form lens area evaluated at 60 significant digits (mpmath) on the same float inputs",
               "accuracy and symmetry tolerance is the property's own: 1e-5 * max(r1,r2)^2; the bounds 0 <= area <= pi*min(r)^2 are checked without tolerance"]
BOUNDS = {'quick': 'J=16, 10 radii + 9 relative gaps for almost equal radii; total_intersection_area on all arrangements of 3-4 discs from a menu', 'thorough': 'J=200, 18 radii, 21 relative gaps'}

RADII = [1.0, 0.1, 0.3, 1 / 3, 2.5, 7.0, 1e-3, 1e3, 123.456, 1e-9]
RADII_T = RADII + [0.7, 3.3, 1e-2, 50.5, 2.0, 1e-6, 1e6, 3e-12]
# almost equal radii r2 = r1*(1+gap): the difference of the squares of the radii cancels, internal tangency at d ~ gap*r1
GAPS = [2.0 ** -52, 1e-12, 1e-10, 1e-9, 1e-8, 1e-7, 1e-6, 1e-5, 1e-4]
GAPS_T = GAPS + [2.0 ** -51, 3e-16, 1e-15, 1e-14, 1e-13, 1e-11, 3e-9, 3e-8, 3e-7, 1e-3, -1e-8, -1e-10]
DIRS = [(1.0, 0.0), (0.0, 1.0), (0.6, 0.8), (2 ** -0.5, 2 ** -0.5)]
ORIGINS = [(0.0, 0.0), (100.1, -37.3)]


def shards(tier):
    rad = RADII if tier == 'quick' else RADII_T
    gaps = GAPS if tier == 'quick' else GAPS_T
    return [dict(i=i, j=j) for i in range(len(rad)) for j in range(len(rad))] + [dict(total=k) for k in range(8)] + \
        [dict(i=i, gap=g) for i in range(len(rad)) for g in gaps]


def check_total(case, res):
    """the caller: total_intersection_area(die) = sum over ordered pairs of modules of the pairwise overlap"""
    from frame.die.die import Die
    from frame.netlist.netlist import Netlist
    from mc.common import reset_frame_state
    from tools.force.fruchterman_reingold import total_intersection_area
    reset_frame_state()
    discs = case['discs']            # (x, y, area)
    mods = {f'M{i}': {'area': a, 'center': [x, y]} for i, (x, y, a) in enumerate(discs)}
    n = Netlist({'Modules': mods, 'Nets': [[f'M{i}' for i in range(len(discs))]]})
    d = Die('20x20', n)
    try:
        got = total_intersection_area(d)
    except Exception as e:  # noqa
        res.violation('total-raises', case, dict(n=len(discs)), 'a number', f'{type(e).__name__}: {e}')
        return
    want = 0
    for i, (x1, y1, a1) in enumerate(discs):
        for j, (x2, y2, a2) in enumerate(discs):
            if i != j:
                want += exact_area((x1, y1), math.sqrt(a1 / math.pi), (x2, y2), math.sqrt(a2 / math.pi))[0]
    if abs(got - float(want)) > 1e-5 * max(a for _, _, a in discs):
        res.violation('total', case, dict(n=len(discs)), float(want), got)
    res.case('total', nontrivial=float(want) > 0)


def exact_area(c1, r1, c2, r2):
    import mpmath as mp
    mp.mp.dps = 60
    dx = mp.mpf(c1[0]) - mp.mpf(c2[0])
    dy = mp.mpf(c1[1]) - mp.mpf(c2[1])
    d = mp.sqrt(dx * dx + dy * dy)
    R1, R2 = mp.mpf(r1), mp.mpf(r2)
    if d >= R1 + R2:
        return mp.mpf(0), d
    if d <= abs(R1 - R2):
        return mp.pi * min(R1, R2) ** 2, d
    a = mp.acos((R1 ** 2 + d ** 2 - R2 ** 2) / (2 * R1 * d))
    b = mp.acos((R2 ** 2 + d ** 2 - R1 ** 2) / (2 * R2 * d))
    return R1 ** 2 * a + R2 ** 2 * b - d * R1 * mp.sin(a), d


def shift(x, j):
    for _ in range(abs(j)):
        x = math.nextafter(x, math.inf if j > 0 else -math.inf)
    return x


def check_case(case, res):
    if 'discs' in case:
        return check_total(case, res)
    from frame.geometry.geometry import Point
    from tools.force.fruchterman_reingold import circle_circle_intersection_area as f
    c1, r1, c2, r2 = tuple(case['c1']), case['r1'], tuple(case['c2']), case['r2']
    big = max(r1, r2)
    tol = 1e-5 * big * big
    exact, d = exact_area(c1, r1, c2, r2)
    attrs = dict(near_ext=bool(abs(d - (r1 + r2)) <= 1e-9 * big), near_int=bool(abs(d - abs(r1 - r2)) <= 1e-9 * big),
                 concentric=bool(d == 0))
    vals = []
    for (a, ra, b, rb) in ((c1, r1, c2, r2), (c2, r2, c1, r1)):
        try:
            v = f(Point(*a), ra, Point(*b), rb)
        except Exception as e:  # noqa
            res.violation('total', case, dict(attrs, exc=type(e).__name__), 'a number', f'{type(e).__name__}: {e}')
            vals.append(None)
            continue
        vals.append(v)
        if not isinstance(v, (int, float)) or v != v or math.isinf(v):
            res.violation('total', case, attrs, 'a finite number', repr(v))
            continue
        if abs(v - float(exact)) > tol:
            res.violation('accuracy', case, attrs, float(exact), v)
        # 'lies between zero and the area of the smaller disc': no tolerance other than the rounding of pi*r^2 itself
        if v < 0 or v > math.pi * min(r1, r2) ** 2 * (1 + 1e-15):
            res.violation('bounds', case, attrs, [0, math.pi * min(r1, r2) ** 2], v)
    if vals[0] is not None and vals[1] is not None and abs(vals[0] - vals[1]) > tol:
        res.violation('symmetry', case, attrs, vals[0], vals[1])
    kind = 'tangent-ext' if attrs['near_ext'] else 'tangent-int' if attrs['near_int'] else \
        'apart' if exact == 0 else 'nested' if d <= abs(r1 - r2) else 'lens'
    res.case(kind, nontrivial=kind in ('lens', 'tangent-ext', 'tangent-int'))


def run_shard(shard, tier, res):
    if 'total' in shard:
        import itertools
        areas = [0.3, 3.0, 12.0]
        xs = [4.0, 5.4, 6.2, 7.0, 8.5]
        k = 0
        for nd in (3, 4):
            for pos in itertools.permutations(xs, nd):
                for ar in itertools.product(areas, repeat=nd):
                    k += 1
                    if k % 8 != shard['total']:
                        continue
                    discs = [[x, 10.0 + 0.3 * i, a] for i, (x, a) in enumerate(zip(pos, ar))]
                    check_total(dict(discs=discs), res)
        # distinct modules at exactly the same place (concentric, nested and equal discs: e.g. every module at the die centre)
        pts = [(5.0, 10.0), (6.2, 10.3)]
        for nd in (2, 3, 4):
            for where in itertools.product((0, 1), repeat=nd):
                if len(set(where)) == nd:
                    continue                # (no two at the same place: covered above)
                for ar in itertools.product(areas, repeat=nd):
                    k += 1
                    if k % 8 != shard['total']:
                        continue
                    check_total(dict(discs=[[pts[w][0], pts[w][1], a] for w, a in zip(where, ar)]), res)
        return
    J = 16 if tier == 'quick' else 200
    r1 = RADII_T[shard['i']]
    r2 = RADII_T[shard['j']] if 'j' in shard else r1 * (1 + shard['gap'])
    bases = [r1 + r2, abs(r1 - r2), 0.0, (r1 + r2) / 2, r1, r2, math.sqrt(abs(r1 * r1 - r2 * r2))]
    seen = set()
    for base in bases:
        for j in range(-J, J + 1):
            d = shift(base, j)
            if d < 0:
                continue
            for (ux, uy) in DIRS:
                for (ox, oy) in ORIGINS:
                    c1 = (ox, oy)
                    c2 = (ox + d * ux, oy + d * uy)
                    key = (c1, c2)
                    if key in seen:
                        continue
                    seen.add(key)
                    case = dict(c1=list(c1), r1=r1, c2=list(c2), r2=r2)
                    check_case(case, res)
    # relative neighbourhoods (steps of 1e-4 .. 1e-7 of the base distance): neighbours that a coarse
    # rounding or cache would confuse although their areas differ by more than the tolerance
    nearly_equal = 'gap' in shard
    for base in (bases[:2] if nearly_equal else bases[:1]) + bases[3:]:
        for rel in ((1.0, 0.1, 1e-2, 1e-3) if nearly_equal and base == bases[1] else ()) + (1e-4, 1e-5, 1e-6, 1e-7):
            for k in range(-4, 5):
                d = base * (1 + k * rel)
                if d < 0 or k == 0:
                    continue
                for (ux, uy) in DIRS[:1] + DIRS[2:3]:
                    c1 = ORIGINS[0]
                    c2 = (d * ux, d * uy)
                    if (c1, c2) in seen:
                        continue
                    seen.add((c1, c2))
                    check_case(dict(c1=list(c1), r1=r1, c2=list(c2), r2=r2), res)
    res.samples.append(dict(c1=[0.0, 0.0], r1=r1, c2=[shift(r1 + r2, -1), 0.0], r2=r2))


replay = replay_via(check_case)
