"""
C20 - Results do not depend on what the process did before.

Explicit-state exploration over REAL process histories.  A state is a live interpreter; a transition executes one
library operation on its own design (19-operation alphabet: designs of the probe's scale, 1000x larger and 1000x
smaller, accepted and rejected inputs, every tool that keeps module-level state).  Every history up to the depth bound
is executed in a freshly forked interpreter; in the reached state one forked child per probe runs the probed operation
and reports a canonical digest of its observable result; the same probes forked from the pristine interpreter give the
reference digests.  States are identified by a fingerprint of all module-level mutable state of frame.* / tools.*.
"""
from __future__ import annotations

import itertools
import json
import os
import traceback

from mc import fingerprint as fpm
from mc.common import quiet

ID = 'C20'
LEVEL = 'model_checking'
PRELOAD = ['frame.geometry.geometry', 'frame.netlist.netlist', 'frame.die.die', 'frame.allocation.allocation', 'ruamel.yaml',
           'mc.common', 'mc.netdocs', 'mc.dpll', 'tools.rect.satmanager', 'tools.rect.pseudobool', 'tools.rect.rect',
           'tools.legalfloor.legalfloor', 'tools.force.fruchterman_reingold', 'tools.spectral.spectral',
           'tools.floorset_parser.floor_set_manager.strop', 'tools.floorset_parser.floor_set_manager.utils.utils',
           'tools.glbfloor.optimization', 'tools.netgen.netgen', 'numpy']
RULE = ("all operation sequences of length <= 2 (quick) / <= 3 (thorough) over a 20-operation alphabet, each executed in a fresh interpreter forked from a pristine "
        "(imports only) process; after each history every one of 18 probes is run in its own forked child and its canonical digest compared with the digest of the "
        "same probe forked from the pristine interpreter; and, for designs LOADED BEFORE the history (two netlists with near-miss orthogons, an allocation, a die), the answers of "
        "create_stogs / griddify / refine / split_refinable_regions asked after every history of length <= 1 (thorough: <= 2). states = distinct fingerprints of module-level mutable state reached; transitions = operations executed; "
        "traces validated = (history, probe) pairs compared.")
ASSUMPTIONS = ["history designs are within a factor of 1000 of the probed design's scale (the statement's own bound)",
               "digests compare observable results: verdicts, regions/cells/roles rounded to 1e-9 of the design scale, projected model sets of encodings (auxiliary variable "
               "names are history-dependent by design), equation verdict vectors",
               "a probe that raises is digested as its exception type (so 'raises after a history but not alone' is a difference)"]
BOUNDS = {'quick': 'depth 2: 1 + 19 + 361 histories x 14 probes', 'thorough': 'depth 3: 7240 histories x 14 probes'}
MC_NOTE = ("the explored object is the real interpreter process; no model is involved: every history is executed, every probe runs on the state it reached")
TECHNIQUE = "explicit-state exploration of real process histories (fork per history and per probe), invariant: probe digest equals the fresh-interpreter digest"


def r9(x, scale=1.0):
    return round(float(x) / scale, 9)


# ------------------------------------------------------------------ designs
def netlist_doc(scale, variant, terminals=True):
    """a small netlist with an L-shaped hard module, a soft module with decimal rectangles, terminals; names shared by all variants"""
    s = scale
    d = 0.1 * variant
    doc = {'Modules': {
        'M0': {'area': 4 * s * s, 'center': [(1 + d) * s, 1 * s]},
        'M1': {'hard': True, 'rectangles': [[2 * s, (2 + d) * s, 2 * s, 1 * s], [1.5 * s, (3 + d) * s, 1 * s, 1 * s]]},
        'M2': {'area': 0.09 * s * s, 'rectangles': [[0.15 * s, 0.15 * s, 0.3 * s, 0.3 * s], [0.4 * s, 0.15 * s, 0.2 * s, 0.1 * s]]},
        'M3': {'fixed': True, 'rectangles': [[3.5 * s, 0.5 * s, 1 * s, 1 * s]]},
        'T0': {'terminal': True, 'center': [0, (2 + d) * s]},
    }, 'Nets': [['M0', 'M1', 2], ['M1', 'M2'], ['M2', 'M3', 'T0', 0.5]]}
    if not terminals:
        del doc['Modules']['T0']
        doc['Nets'][2] = ['M2', 'M3', 0.5]
    return doc


def die_doc(scale, variant):
    s = scale
    regs = [[0.5 * s, 3.5 * s, 1 * s, 1 * s, '#'], [(2.5 + 0.25 * variant) * s, 2.5 * s, 1 * s, 1 * s, 'dsp']]
    return {'width': 4 * s, 'height': 4 * s, 'regions': regs}


def dec_die_doc(scale, variant):
    s = scale * 0.1
    return {'width': 3 * s, 'height': 3 * s, 'regions': [[2.5 * s, 0.5 * s, 1 * s, 1 * s, '#'], [(0.5 + variant) * s, 2.5 * s, 1 * s, 1 * s, 'dsp']]}


def alloc_doc(scale, variant):
    s = scale * 0.1
    return [[[0.5 * s, 0.5 * s, 1 * s, 1 * s], {'M0': 0.5, 'M1': 0.3}], [[1.5 * s, 0.5 * s, 1 * s, 1 * s], {'M0': 0.2 + 0.1 * variant}],
            [[1 * s, 2 * s, 2 * s, 2 * s], {'M1': 0.4, 'M2': 0.4}], [[2.5 * s, 1.5 * s, 1 * s, 3 * s], {}]]


# ------------------------------------------------------------------ operations (each on its own design)
def op_netlist(scale=1.0, variant=1, terminals=True):
    from frame.netlist.netlist import Netlist
    n = Netlist(netlist_doc(scale, variant, terminals))
    return n


def op_bad_netlist():
    from frame.netlist.netlist import Netlist
    doc = netlist_doc(1.0, 2)
    doc['Nets'].append(['M0', 'Ghost'])
    try:
        Netlist(doc)
    except AssertionError:
        pass


def op_die(scale=1.0, variant=1, with_netlist=True, terminals=True):
    from frame.die.die import Die
    n = op_netlist(scale, variant, terminals) if with_netlist else None
    d = Die(die_doc(scale, variant), n)
    d.split_refinable_regions(1.5, 6)
    d.floorplanning_rectangles()
    return d


def corner_die_doc(w, h):
    """a 6x4 die with one obstacle of size w x h in its upper-right corner: the same cell pattern for every (w, h)"""
    return {'width': 6, 'height': 4, 'regions': [[6 - w / 2, 4 - h / 2, w, h, '#']]}


def op_die_pattern():
    from frame.die.die import Die
    d = Die(corner_die_doc(2, 2))
    d.floorplanning_rectangles()
    return d


def op_bad_die():
    from frame.die.die import Die
    doc = die_doc(1.0, 1)
    doc['regions'].append([0.75, 3.5, 1, 1, 'bram'])
    try:
        Die(doc)
    except AssertionError:
        pass


def op_alloc(scale=1.0, variant=1):
    from frame.allocation.allocation import Allocation
    a = Allocation(alloc_doc(scale, variant))
    a = a.refine(0.5, 2).griddify().uniform_refinement_depth()
    a.write_yaml()
    a.center(['M0', 'M1', 'M2']), a.center('M1'), a.area(['M0', 'M2'])
    return a


def op_initial_alloc(scale=1.0, variant=1):
    from frame.allocation.allocation import create_initial_allocation
    d = op_die(scale, variant, terminals=False)
    return create_initial_allocation(d)


def op_pb(variant=1):
    import tools.rect.satmanager as sm
    m = sm.SATManager()
    a, b, c, d = (m.newvar(x) for x in 'abcd')
    m.pseudoboolencoding(2 * a + 2 * b + c + (2 + variant) * d >= 3 + variant)
    m.pseudoboolencoding(3 * a + 2 * (-b) + c <= 3, True)
    m.heuleencoding([a, b, c, -d])
    m.solve()
    return m


def op_legal(variant=1):
    import tools.legalfloor.legalfloor as lf
    from frame.netlist.netlist import Netlist
    doc = {'Modules': {'M0': {'area': 4, 'rectangles': [[2, 2 + 0.1 * variant, 2, 2]]},
                       'M1': {'hard': True, 'rectangles': [[6, 2, 2, 1], [6.5, 3, 1, 1]]}}, 'Nets': [['M0', 'M1', 2]]}
    n = Netlist(doc)
    with quiet():
        ml, al, xl, yl, wl, hl, hyper, og = lf.netlist_to_utils(n)
        model = lf.Model(ml, al, xl, yl, wl, hl, 8.0, 8.0, hyper, 2.0, og, 0.9, 0.3, 1.0, None)
        lf.turn_off_flag(1)
    return model


def op_legal_small():
    """the legaliser model of a design written in small units (die 0.05 x 0.05: within a factor 1000 of the probes' 8 x 8)"""
    import tools.legalfloor.legalfloor as lf
    from frame.netlist.netlist import Netlist
    n = Netlist({'Modules': {'M0': {'area': 1e-4, 'rectangles': [[0.01, 0.01, 0.01, 0.01]]},
                             'M1': {'hard': True, 'rectangles': [[0.03, 0.02, 0.01, 0.005]]}}, 'Nets': [['M0', 'M1']]})
    with quiet():
        ml, al, xl, yl, wl, hl, hyper, og = lf.netlist_to_utils(n)
        model = lf.Model(ml, al, xl, yl, wl, hl, 0.05, 0.05, hyper, 2.0, og, 0.9, 0.3, 1.0, None)
        lf.turn_off_flag(1)
    return model


def op_strop(variant=1):
    from tools.floorset_parser.floor_set_manager.strop import Strop
    from tools.floorset_parser.floor_set_manager.utils.utils import strop_decomposition
    from frame.geometry.geometry import Point
    Strop('0110\n1111\n0100' if variant == 1 else '011\n110')
    Strop('11\n10', [1.0, 2.0], [0.5, 1.5])
    Strop('1')
    strop_decomposition([Point(0, 0), Point(3, 0), Point(3, 1), Point(1 + variant, 1), Point(1 + variant, 2), Point(0, 2)])


def op_force(variant=1):
    from tools.force.fruchterman_reingold import force_algorithm
    from frame.die.die import Die
    from frame.netlist.netlist import Netlist
    n = Netlist({'Modules': {'M0': {'area': 1 + variant, 'center': [1, 1]}, 'M1': {'area': 2, 'center': [3, 3]},
                             'M2': {'area': 0.5, 'center': [1, 3]}}, 'Nets': [['M0', 'M1'], ['M1', 'M2', 2]]})
    force_algorithm(Die('4x4', n), max_iter=3)


def op_spectral(variant=1):
    import tools.spectral.spectral_algorithm as alg
    from tools.spectral.spectral import Spectral
    from frame.geometry.geometry import Shape
    from mc.props.c14 import Menu
    nl = Spectral({'Modules': {f'M{i}': {'area': 0.5 + 0.3 * i * variant} for i in range(4)},
                   'Nets': [['M0', 'M1'], ['M1', 'M2'], ['M2', 'M3'], ['M3', 'M0', 2]]})
    saved = alg.random
    alg.random = Menu([0.13, 0.88])
    try:
        nl.spectral_layout(Shape(6, 4), 1, False)
    finally:
        alg.random = saved
    return nl


def op_rect(variant=1):
    from mc.props import c08
    import tools.rect.rect as rect
    cells = c08.grid_cells('HALFORG', 2, 2)
    occ = [0.7, 0.3, 0.0, 1.0] if variant == 1 else [0.3, 1.0, 0.7, 0.0]
    with quiet():
        return rect.solve(c08.make_carrier(cells, occ), c08.ifile_of(cells), 2.0, (-100, 1), 2)


def op_glb(variant=1):
    from tools.glbfloor.optimization import glbfloor
    from frame.die.die import Die
    from frame.netlist.netlist import Netlist
    n = Netlist({'Modules': {'M0': {'area': 3.0, 'center': [1.0, 1.0 + 0.5 * variant]}, 'M1': {'area': 2.0, 'center': [3.0, 2.5]}},
                 'Nets': [['M0', 'M1']]})
    d = Die('4x4', n)
    d.initial_grid(2, 2)
    with quiet():
        try:
            glbfloor(d, 0.7, 0.5, max_iter=1)
        except Exception:  # noqa  (a solver failure is still a history)
            pass


def _floorset(variant):
    from mc.props import c19
    from tools.floorset_parser.floor_set_manager.manager import FloorSetInstance
    case = dict(blocks=[['L', 0, 0], ['rect', 1, 0], ['T', 0, 1]][:2 + (variant % 2)], pins=[[0, 2], [12, 0], [6, 4]],
                b2b=[(0, 1, 0.5 * variant)], p2b=[(0, 0, 2), (1, 1, 0), (2, 0, 1.5)], density=(0.5 if variant == 1 else None),
                tam=(variant == 2), cw=False, step=1.0)
    inst = FloorSetInstance(c19.floorset_instance(case), case['density'], case['tam'])
    return inst.write_yaml_FPEF() + inst.write_yaml_DIEF() + inst.write_yaml_FPEF()


def _netgen(kind, size, die=None):
    import tempfile
    import tools.netgen.netgen as netgen
    d = tempfile.mkdtemp(prefix='c20.')
    p = os.path.join(d, 'n.yaml')
    args = ['-o', p, '--type', kind, '--size'] + [str(x) for x in size]
    if die:
        args += ['--add-centers', '--die', die]
    with quiet():
        netgen.main('netgen', args)
    txt = open(p).read()
    os.unlink(p)
    os.rmdir(d)
    return txt


def _rectio(variant):
    import tools.rect.rect_io as rio
    n = op_netlist(1.0, variant)
    return rio.solution_to_netlist(n, {'M0': [(1.0, 1.0, 2.0, 2.0)], 'M2': [(0.15, 0.35, 0.3, 0.1), (0.15, 0.45, 0.1 * variant, 0.1)]})


def op_misc(variant=1):
    import tools.rect.pseudobool as pb
    from tools.floorset_parser.floor_set_manager.strop import Strop
    q = pb.Ineq()
    e = pb.Expr() + pb.Literal('a') * (2 + variant) + 3
    pb.Ineq(e, pb.Expr() + 1, '<=')
    s1 = Strop('11\n01')
    s1.get_width.append(99)          # a caller modifying what an accessor returned
    return q.tostr(), _floorset(variant), _netgen('grid', [2, 2 + variant], '4x4'), _netgen('htree', [2]), _rectio(variant)


YAML_TEXTS = {
    'netlist11': "%YAML 1.1\n---\nModules:\n  M0: {area: 4, center: [1, 1]}\n  M1: {fixed: yes, rectangles: [[3.5, 0.5, 1, 1]]}\nNets:\n  - [M0, M1, 2]\n",
    'die11': "%YAML 1.1\n---\nwidth: 4\nheight: 4\nregions:\n  - [0.5, 3.5, 1, 1, '#']\n",
    'alloc': "- - [0.5, 0.5, 1, 1]\n  - {M0: 0.5}\n- - [1.5, 0.5, 1, 1]\n  - {M0: 1}\n",
}


def op_yaml_text():
    """designs given as YAML TEXT (one of them announces itself as YAML 1.1) and as files"""
    import tempfile
    from frame.netlist.netlist import Netlist
    from frame.die.die import Die
    from frame.allocation.allocation import Allocation
    n = Netlist(YAML_TEXTS['netlist11'])
    Die(YAML_TEXTS['die11'], n)
    Allocation(YAML_TEXTS['alloc'])
    d = tempfile.mkdtemp(prefix='c20.')
    p = os.path.join(d, 'n.yaml')
    n.write_yaml(p)
    Netlist(p)
    os.unlink(p)
    os.rmdir(d)


def probe_yaml_text():
    """plain YAML texts whose meaning differs between YAML 1.1 and 1.2 (yes/no booleans, leading-zero integers)"""
    from frame.netlist.netlist import Netlist
    from frame.die.die import Die
    out = []
    for txt in ("Modules:\n  M0: {area: 010, center: [1, 1]}\n  M1: {area: 2, center: [2, 2]}\nNets:\n  - [M0, M1]\n",
                "Modules:\n  M0: {area: 4}\n  M1: {fixed: yes, rectangles: [[3.5, 0.5, 1, 1]]}\nNets:\n  - [M0, M1]\n",
                "Modules:\n  M0: {area: 4}\n  M1: {fixed: true, rectangles: [[3.5, 0.5, 1, 1]]}\nNets:\n  - [M0, M1, 0.5]\n"):
        try:
            n = Netlist(txt)
            out.append(dg_netlist(n, 1.0) if all(m.center is not None for e in n.edges for m in e.modules)
                       else [(m.name, m.area(), m.is_fixed) for m in n.modules])
        except AssertionError as e:
            out.append(['rejected', str(e)[:60]])
    try:
        out.append(dg_die(Die("width: 4\nheight: 010\n"), 4.0))
    except AssertionError as e:
        out.append(['rejected', str(e)[:60]])
    return out


OPS = {
    'netlist': lambda: op_netlist(1.0, 1),
    'netlist_x1000': lambda: op_netlist(1000.0, 1),
    'netlist_d1000': lambda: op_netlist(0.001, 1),
    'bad_netlist': op_bad_netlist,
    'die_x1000': lambda: op_die(1000.0, 1),
    'die_d1000': lambda: op_die(0.001, 1, with_netlist=False),
    'bad_die': op_bad_die,
    'alloc_x1000': lambda: op_alloc(1000.0, 1),
    'alloc': lambda: op_alloc(1.0, 1),
    'initial_alloc': lambda: op_initial_alloc(1.0, 1),
    'pb': lambda: op_pb(1),
    'legal': lambda: op_legal(1),
    'legal_small': op_legal_small,
    'strop': lambda: op_strop(1),
    'force_spectral': lambda: (op_force(1), op_spectral(1)),
    'rect': lambda: op_rect(1),
    'glbfloor': lambda: op_glb(1),
    'misc_writers': lambda: op_misc(1),
    'die_pattern': op_die_pattern,
    'yaml_text': op_yaml_text,
}


# ------------------------------------------------------------------ probes: operation on a separate design -> canonical digest
def dg_netlist(n, scale):
    from mc import netdocs as nd
    m = nd.loaded_model(n)
    out = []
    for name in m['order']:
        e = m['modules'][name]
        out.append((name, e['hard'], e['fixed'], e['terminal'], r9(e['area'], scale * scale),
                    None if e['centre'] is None else (r9(e['centre'][0], scale), r9(e['centre'][1], scale)),
                    tuple((r9(r['cx'], scale), r9(r['cy'], scale), r9(r['w'], scale), r9(r['h'], scale), r['region']) for r in e['rects']),
                    tuple(e['roles'])))
    return [out, [(tuple(mm), w) for mm, w in m['nets']], r9(n.wire_length, scale)]


def dg_die(d, scale):
    def rr(lst):
        return sorted((r9(r.center.x, scale), r9(r.center.y, scale), r9(r.shape.w, scale), r9(r.shape.h, scale), r.region) for r in lst)
    return [rr(d.ground_regions), rr(d.specialized_regions), rr(d.blockages), rr(d.fixed_regions)]


def dg_alloc(a, scale):
    return sorted(((r9(c.rect.center.x, scale), r9(c.rect.center.y, scale), r9(c.rect.shape.w, scale), r9(c.rect.shape.h, scale)),
                   tuple(sorted((k, r9(v)) for k, v in c.alloc.items())), c.depth, bool(c.rect.fixed)) for c in a.allocations)


def probe_netlist():
    return dg_netlist(op_netlist(1.0, 3), 1.0)


def probe_netlist_dec():
    from frame.netlist.netlist import Netlist
    # single-trunk orthogons with 0.1 / 0.3 steps: recognition depends on the tolerance in force
    doc = {'Modules': {'M0': {'area': 1, 'rectangles': [[0.15, 0.15, 0.3, 0.3], [0.35, 0.15, 0.1, 0.1], [0.15, 0.35, 0.1, 0.1]]},
                       'M1': {'hard': True, 'rectangles': [[0.9, 0.9, 0.6, 0.6], [0.9, 1.35, 0.3, 0.3]]},
                       'M2': {'area': 1, 'rectangles': [[2.0, 2.0, 0.3, 0.3], [2.25 + 1e-7, 2.0, 0.2, 0.2]]}}, 'Nets': [['M0', 'M1', 'M2']]}
    return dg_netlist(Netlist(doc), 1.0)


def probe_bad_netlists():
    from frame.netlist.netlist import Netlist
    out = []
    for mutate in (lambda d: d['Nets'].append(['M0', 2]), lambda d: d['Modules']['M1']['rectangles'].append([2.2, 2.3, 1, 1]),
                   lambda d: d['Modules'].__setitem__('M9', {'area': 0}), lambda d: None):
        doc = netlist_doc(1.0, 3)
        mutate(doc)
        try:
            Netlist(doc)
            out.append('accepted')
        except AssertionError:
            out.append('rejected')
    # a hard module whose rectangles overlap on a thin strip (0.5% of a rectangle): the verdict depends on the area
    # tolerance in force
    for strip in (0.01, 0.001):
        try:
            Netlist({'Modules': {'H': {'hard': True, 'rectangles': [[1, 1, 2, 2], [3 - strip, 1, 2, 2]]}}, 'Nets': []})
            out.append('accepted')
        except AssertionError:
            out.append('rejected')
    return out


def _probe_strip(strip):
    """a hard module whose rectangles overlap on a thin strip, as the first thing done after the history"""
    from frame.netlist.netlist import Netlist
    try:
        Netlist({'Modules': {'H': {'hard': True, 'rectangles': [[1, 1, 2, 2], [3 - strip, 1, 2, 2]]}}, 'Nets': []})
        return 'accepted'
    except AssertionError:
        return 'rejected'


def probe_die():
    from frame.die.die import Die
    out = []
    for v in (0, 1):
        d = Die(dec_die_doc(1.0, v))
        out.append(dg_die(d, 0.3))
        d.split_refinable_regions(1.5, 7)
        out.append(dg_die(d, 0.3))
    d = Die(die_doc(1.0, 3), op_netlist(1.0, 3))
    out.append(dg_die(d, 4.0))
    # the same cell pattern as the 'die_pattern' operation, other proportions (the largest-first cover differs)
    for (w, h) in ((5, 1), (1, 3), (3, 3)):
        out.append(dg_die(Die(corner_die_doc(w, h)), 6.0))
    return out


def probe_bad_dies():
    from frame.die.die import Die
    out = []
    docs = []
    for extra in ([0.25, 0.05, 0.1, 0.1, 'bram'], [0.05, 0.25, 0.1, 0.1, 'bram'], [0.15, 0.15, 0.1, 0.1, 'bram'], [0.25, 0.15, 0.2, 0.1, 'x']):
        doc = dec_die_doc(1.0, 0)
        doc['regions'].append(extra)
        docs.append(doc)
    # an overlap of 1e-6 of the design size
    doc = dec_die_doc(1.0, 0)
    doc['regions'].append([0.15 - 1e-7, 0.25, 0.1, 0.1, 'y'])
    docs.append(doc)
    # ... and regions overlapping the obstacle on strips of 1e-2 .. 1e-4 of their size
    for strip in (1e-3, 1e-4, 1e-5):
        doc = dec_die_doc(1.0, 0)
        doc['regions'].append([0.15 + strip, 0.05, 0.1, 0.1, 'z'])
        docs.append(doc)
    for doc in docs:
        try:
            Die(doc)
            out.append('accepted')
        except AssertionError:
            out.append('rejected')
    return out


def probe_bad_allocs():
    """allocations whose cells overlap on a strip (1e-2 .. 1e-5 of a cell) or merely touch: the accept / reject verdict
    depends on the area tolerance in force"""
    from frame.allocation.allocation import Allocation
    out = []
    for strip in (1e-2, 1e-3, 1e-4, 1e-5, 0.0):
        doc = [[[0.5, 0.5, 1, 1], {'M0': 0.5}], [[1.5 - strip, 0.5, 1, 1], {'M1': 0.5}], [[0.5, 1.5 - strip / 2, 1, 1], {'M0': 0.25}]]
        try:
            Allocation(doc)
            out.append('accepted')
        except AssertionError:
            out.append('rejected')
    return out


def probe_alloc():
    from frame.allocation.allocation import Allocation
    a = Allocation(alloc_doc(1.0, 3))
    out = [dg_alloc(a, 0.1), a.must_be_refined(0.5)]
    for b in (a.refine(0.5, 1), a.griddify(), a.refine(1.0, 2).uniform_refinement_depth()):
        out.append(dg_alloc(b, 0.1))
        out.append([(m, r9(b.area(m), 0.01)) for m in ('M0', 'M1', 'M2')])
        out.append([(r9(c.x, 0.1), r9(c.y, 0.1)) for c in (b.center('M0'), b.center(['M0', 'M1']), b.center(['M2', 'M1', 'M0']))])
        out.append(r9(b.area(['M1', 'M2']), 0.01))
    return out


def probe_initial_alloc():
    from frame.allocation.allocation import create_initial_allocation
    from frame.die.die import Die
    d = Die(die_doc(1.0, 3), op_netlist(1.0, 3, terminals=False))
    d.split_refinable_regions(2.0, 5)
    return dg_alloc(create_initial_allocation(d), 4.0)


def probe_pb():
    """projected model sets of three encodings (auxiliary names are history-dependent by design, the model set is not)"""
    import tools.rect.satmanager as sm
    from mc import dpll
    out = []
    for cd in (False, True):
        m = sm.SATManager()
        a, b, c, d = (m.newvar(x) for x in 'abcd')
        m.pseudoboolencoding(2 * a + 2 * b + c + 3 * d >= 4, cd)
        m.pseudoboolencoding(3 * a + 2 * (-b) + c + d <= 3, cd)
        m.heuleencoding([a, -b, c, d])
        names = {}
        cnf = []
        for cl in m.clauses:
            cnf.append([(names.setdefault(L.v, len(names) + 1)) * (1 if L.s else -1) for L in cl])
        models = []
        for bits in itertools.product((0, 1), repeat=4):
            assum = [(names['def_' + v] if bit else -names['def_' + v]) for v, bit in zip('abcd', bits) if 'def_' + v in names]
            if dpll.satisfiable(cnf, assum):
                models.append(bits)
        out.append(models)
        out.append(bool(m.solve()))
    return out


def probe_legal():
    import tools.legalfloor.legalfloor as lf
    from frame.netlist.netlist import Netlist
    doc = {'Modules': {'M0': {'area': 4, 'rectangles': [[2, 2, 2, 2], [2, 3.5, 1, 1]]},
                       'M1': {'hard': True, 'rectangles': [[6, 2, 2, 1], [6.5, 3, 1, 1]]},
                       'M2': {'fixed': True, 'rectangles': [[2, 6.5, 1, 1]]},
                       # (an area that its rectangle misses by 5e-7: met within the tolerance of a design of this size)
                       'M3': {'area': 0.25, 'rectangles': [[6.5, 6.5, 0.5, 0.499999]]}},
           'Nets': [['M0', 'M1', 2], ['M1', 'M2'], ['M2', 'M3']]}
    n = Netlist(doc)
    with quiet():
        ml, al, xl, yl, wl, hl, hyper, og = lf.netlist_to_utils(n)
        model = lf.Model(ml, al, xl, yl, wl, hl, 8.0, 8.0, hyper, 2.0, og, 0.9, 0.3, 1.0, None)
        structure = [sorted((g, len(v)) for g, v in model.gekko.constraints.items()), len(model.gekko.variable_list),
                     sorted(v.data['name'] for v in model.gekko.variable_list)[:6], r9(model.time.evaluate()), r9(lf.get_epsilon())]
        model.time_advance(2)
        structure += [r9(model.time.evaluate()), r9(lf.get_epsilon()),
                      [r9(e.rhs.evaluate()) for e in model.gekko.constraints.get('Exact Value', [])]]
        model.time.assign(1000)
        verdicts = [structure]
        for group in sorted(model.gekko.constraints):
            if group in ('radius', 'Exact Value'):
                continue
            verdicts.append((group, [bool(e.is_equation_met()) for e in model.gekko.constraints[group]]))
        for mm in model.M:
            verdicts.append([bool(e.is_equation_met()) for con in mm.constraints for (_, e) in con])
        model.M[1].x[0].assign(5.0)       # move the hard trunk only: its Fix/Attach equations must fail
        verdicts.append([bool(e.is_equation_met()) for e in model.gekko.constraints['Fix']])
        nl = model.get_netlist()
    return [verdicts, dg_netlist(nl, 1.0)]


def probe_strop():
    from tools.floorset_parser.floor_set_manager.strop import Strop
    from tools.floorset_parser.floor_set_manager.utils.utils import strop_decomposition
    from frame.geometry.geometry import Point
    out = []
    for txt in ('0110\n1111\n0110', '01\n11\n10', '110\n011', '1'):
        s = Strop(txt)
        out.append([s.is_strop, [[(r.rows.low, r.rows.high, r.columns.low, r.columns.high) for r in inst.rectangles()] for inst in s.instances()]])
    s = Strop('11\n10')
    out.append([s.get_width, s.num_rows])
    out.append(strop_decomposition([Point(0, 0), Point(2, 0), Point(2, 1), Point(1, 1), Point(1, 3), Point(0, 3)]))
    return out


def probe_force_spectral():
    from tools.force.fruchterman_reingold import force_algorithm
    from frame.die.die import Die
    from frame.netlist.netlist import Netlist
    n = Netlist({'Modules': {'M0': {'area': 3, 'center': [1, 1]}, 'M1': {'area': 1, 'center': [3, 3]},
                             'M2': {'area': 2.5, 'center': [1, 3]}}, 'Nets': [['M0', 'M1', 2], ['M1', 'M2']]})
    d, _ = force_algorithm(Die('4x4', n), max_iter=3)
    out = [[(r9(m.center.x), r9(m.center.y)) for m in d.netlist.modules]]
    nl = op_spectral(2)
    out.append([(r9(m.center.x), r9(m.center.y)) for m in nl.modules])
    return out


def probe_rect():
    r = op_rect(2)
    return [list(r[0]), [list(x) for x in r[1]]]


def probe_writers():
    import tools.rect.pseudobool as pb
    from tools.floorset_parser.floor_set_manager.strop import Strop
    q = pb.Ineq()
    s1 = Strop('11\n01')
    return [q.tostr(), (pb.Literal('a') * 2 + pb.Literal('b') >= 2).tostr(), s1.get_width, _floorset(2), _floorset(3),
            _netgen('grid', [2, 3], '4x4'), _netgen('ring-star', [5]), _netgen('htree', [2]), _rectio(3)]


PROBES = {
    'netlist': probe_netlist, 'netlist_dec': probe_netlist_dec, 'bad_netlists': probe_bad_netlists, 'die': probe_die,
    'bad_dies': probe_bad_dies, 'alloc': probe_alloc, 'initial_alloc': probe_initial_alloc, 'pb': probe_pb, 'legal': probe_legal,
    'bad_allocs': probe_bad_allocs, 'strip_1e-2': lambda: _probe_strip(1e-2), 'strip_1e-4': lambda: _probe_strip(1e-4),
    'strip_1e-6': lambda: _probe_strip(1e-6), 'strop': probe_strop, 'force_spectral': probe_force_spectral, 'rect': probe_rect, 'writers': probe_writers, 'yaml_text': probe_yaml_text,
}


def run_probe_forked(name):
    """run one probe in a forked child; returns its digest (JSON text)"""
    r, w = os.pipe()
    pid = os.fork()
    if pid == 0:
        try:
            os.close(r)
            try:
                with quiet():
                    val = PROBES[name]()
                txt = json.dumps(val, default=repr, sort_keys=True)
            except BaseException as e:  # noqa
                txt = json.dumps(['RAISED', type(e).__name__, str(e)[:200]])
            with os.fdopen(w, 'w') as f:
                f.write(txt)
        finally:
            os._exit(0)
    os.close(w)
    with os.fdopen(r) as f:
        txt = f.read()
    os.waitpid(pid, 0)
    return txt


def check_case(case, res):
    """case = dict(history=[op names], probes=[names] or None)"""
    if case.get('held'):
        check_held(case, res)
        return
    probes = case.get('probes') or list(PROBES)
    base_fp = fpm.fingerprint()
    baseline = {p: run_probe_forked(p) for p in probes}
    errors = []
    from frame.geometry.geometry import Rectangle
    eps_set_by = None          # the operation that fixed the process-wide rectangle tolerance
    for op in case['history']:
        res.transitions += 1
        try:
            with quiet():
                OPS[op]()
        except BaseException as e:  # noqa
            errors.append(f'{op}: {type(e).__name__}: {e}')
        if eps_set_by is None and Rectangle.epsilon_defined():
            eps_set_by = op
    if errors:
        raise RuntimeError(f'C20 harness: a history operation failed on the tree: {errors} (history {case["history"]})\n{traceback.format_exc()}')
    fp = fpm.fingerprint()
    from mc.engine import h64
    res.states.add(h64(fpm.digest(fp)))
    mv = fpm.moved(base_fp, fp)
    for k in mv:
        res.counters['state-moved:' + k] += 1
    differs = False
    for p in probes:
        res.traces += 1
        got = run_probe_forked(p)
        if got != baseline[p]:
            differs = True
            res.violation('history-dependent-result', dict(history=case['history'], probes=[p]),
                          dict(probe=p, eps_set_by=eps_set_by, depth=len(case['history'])),
                          baseline[p][:600], got[:600], note='state that moved: ' + ', '.join(mv[:8]))
    res.case('same' if not differs else 'differs', nontrivial=bool(case['history']))


# ------------------------------------------------------------------ designs that are ALREADY LOADED when the history runs
def build_held():
    """designs loaded at the very beginning of the process; the history runs on other designs afterwards, and then an
    operation is asked of these objects: its answer must be what it is when nothing happened in between"""
    from frame.netlist.netlist import Netlist
    from frame.allocation.allocation import Allocation
    from frame.die.die import Die
    held = {}
    # two abutting rectangles on a 100-unit design whose shared side is written with 10 / 14 significant digits
    # (they interpenetrate by 5e-9 / 5e-13): whether they form an orthogon depends on the tolerance in force
    for key, third in (('nl10', 33.33333333), ('nl14', 33.333333333333)):
        w2 = 100 - third + (5e-9 if key == 'nl10' else 5e-13)
        held[key] = Netlist({'Modules': {'A': {'area': 10000, 'rectangles': [[third / 2, 50, third, 100], [100 - w2 / 2, 50, w2, 60]]},
                                         'B': {'area': 400, 'rectangles': [[150, 50, 20, 20]]}}, 'Nets': [['A', 'B']]})
    held['alloc'] = Allocation(alloc_doc(1.0, 2))
    held['die'] = Die(dec_die_doc(1.0, 1))
    return held


def probe_held(held):
    out = []
    for key in ('nl10', 'nl14'):
        n = held[key]
        n.create_stogs()
        out.append([key, [(m.name, m.has_stog, [r.location.name for r in m.rectangles]) for m in n.modules if m.num_rectangles]])
    a = held['alloc']
    out.append(['alloc', dg_alloc(a.griddify(), 0.1), dg_alloc(a.refine(0.5, 2), 0.1), a.must_be_refined(0.3)])
    d = held['die']
    d.split_refinable_regions(1.5, 9)
    out.append(['die', dg_die(d, 0.3)])
    return out


def check_held(case, res):
    """case = dict(held=True, history=[...]): objects loaded first, history on other designs, then operations on the objects"""
    def forked(fn):
        r, w = os.pipe()
        pid = os.fork()
        if pid == 0:
            try:
                os.close(r)
                try:
                    with quiet():
                        txt = json.dumps(fn(), default=repr, sort_keys=True)
                except BaseException as e:  # noqa
                    txt = json.dumps(['RAISED', type(e).__name__, str(e)[:200]])
                with os.fdopen(w, 'w') as f:
                    f.write(txt)
            finally:
                os._exit(0)
        os.close(w)
        with os.fdopen(r) as f:
            txt = f.read()
        os.waitpid(pid, 0)
        return txt
    with quiet():
        held = build_held()
    baseline = forked(lambda: probe_held(held))          # asked at once, nothing in between
    for op in case['history']:
        res.transitions += 1
        try:
            with quiet():
                OPS[op]()
        except BaseException as e:  # noqa
            raise RuntimeError(f'C20 harness: history operation {op} failed: {type(e).__name__}: {e}')
    res.traces += 1
    got = forked(lambda: probe_held(held))
    if got != baseline:
        b, g = json.loads(baseline), json.loads(got)
        which = [x[0] for x, y in zip(b, g) if x != y] if isinstance(b, list) and isinstance(g, list) and len(b) == len(g) else ['?']
        res.violation('history-dependent-result', dict(held=True, history=case['history']),
                      dict(probe='held:' + '+'.join(which), depth=len(case['history'])), baseline[:700], got[:700],
                      note='objects loaded before the history')
    res.case('held-same' if got == baseline else 'held-differs', nontrivial=bool(case['history']))


def histories(tier):
    names = list(OPS)
    depth = 2 if tier == 'quick' else 3
    out = [[]]
    for k in range(1, depth + 1):
        out += [list(h) for h in itertools.product(names, repeat=k)]
    return out


def held_histories(tier):
    names = list(OPS)
    out = [[]] + [[n] for n in names]
    if tier != 'quick':
        out += [list(h) for h in itertools.product(names, repeat=2)]
    return out


def shards(tier):
    hs = histories(tier)
    return [dict(i=i) for i in range(len(hs))] + [dict(held=j) for j in range(len(held_histories(tier)))]


def run_shard(shard, tier, res):
    if 'held' in shard:
        h = held_histories(tier)[shard['held']]
        check_case(dict(held=True, history=h), res)
        return
    h = histories(tier)[shard['i']]
    check_case(dict(history=h), res)
    res.samples.append(dict(history=h, probes=list(PROBES)))


def replay(case):
    from mc.engine import ShardResult
    res = ShardResult()
    check_case(case, res)
    return res.violations
