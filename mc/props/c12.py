"""C12 - Refinement decisions are consistent, exact and terminate (explicit-state BFS, see mc/allocbfs.py)."""
from mc import allocbfs
from mc.common import reset_frame_state

ID = 'C12'
LEVEL = 'model_checking'
PRELOAD = ['frame.geometry.geometry', 'frame.netlist.netlist', 'frame.die.die', 'frame.allocation.allocation', 'ruamel.yaml', 'mc.common', 'mc.allocbfs']
RULE = ("BFS over sequences of refine(t,L) (t in {0,0.5,1}, L in {1,2}), uniform_refinement_depth, griddify from every initial allocation: "
        "all sets of <=3 (quick) / <=4 (thorough) disjoint cells on small grids with different numbers of x and y boundaries, occupancy maps from "
        "{empty, one module at 0.3/0.7/1.0, two modules, a zero entry}, recorded depths 0..2, optionally one fixed cell; states merged on the exact "
        "cell model. Non-trivial = distinct canonical states reached.")
ASSUMPTIONS = ["cells of fixed modules are never cut (C02), so 'every cell' is read over refinable cells", "a square cell may be halved along either side", "griddify does not prescribe depths", "cells flagged fixed carry {F: 1.0} as initial_allocation produces them",
               "coordinates compared with 1e-9*scale tolerance; areas/centroids with relative 1e-9",
               "initial states the Allocation constructor itself rejects (a module whose total area is 0) are outside the space and counted"]
BOUNDS = {'quick': 'depth 2; 6 operations; grids 3x2 (HALF, k<=3 cells), 2x3 (DEC1, k<=2), elongated 3x2 / 2x3 (cells up to 64.5 x 1 with boundaries 0.5 from their ends, k<=2)', 'thorough': 'depth 2 with all 8 operations on HALF/DEC1 3x2 k<=3, DEC3 2x3 k<=3, elongated k<=3, P300 k<=3, DEC7 4x1 k<=4; depth 3 (6 operations) on HALF 2x2 and DEC1 2x1 with k<=2'}
MC_NOTE = ("exploration on the implementation itself: every transition calls the real method on the real object; "
           "'traces_validated_against_impl' = number of complete depth-bounded operation sequences executed")
CLAIM = ("in every reachable small allocation must_be_refined(t) holds exactly when refine(t) changes the allocation (no livelock of the refine-while-needed loop), and the result of every refine / uniform / griddify transition equals the exact reference model (which cells are split, into which pieces, with which depth)")


def shards(tier):
    return allocbfs.shard_plan(tier)


def run_shard(shard, tier, res):
    allocbfs.run_shard_common('C12', shard, tier, res)


def check_case(case, res):
    allocbfs.check_case_common('C12', case, res)


def replay(case):
    from mc.engine import ShardResult
    res = ShardResult()
    reset_frame_state()
    check_case(case, res)
    want = [list(x) for x in case['hist']]
    return [v for v in res.violations if v['case']['hist'] == want] or res.violations
