"""
C07 - SAT layer: every posted constraint is encoded exactly.

Enumerated: all clauses / implications over 3 variables, at-most-one groups (pairwise, chained k=3..5, sizes 0..7,
polarity patterns, repeated literals), all pseudo-Boolean inequalities sum c_i*l_i op b over <=3 (quick) / 4 variables
with c_i in -3..3, both polarities, every relevant bound, the five operators, both decision-diagram constructions;
all ordered pairs (triples in thorough) of encodings from a 40-element sub-alphabet, in the same manager or in
earlier managers sharing the process-wide diagram store.
Deciding step: enumeration of ALL assignments of the user's variables; for each, the existence of an extension to
the auxiliary variables is decided by the harness' own exhaustive DPLL (mc/dpll.py).
"""
from __future__ import annotations

import itertools

from mc import dpll
from mc.common import reset_frame_state

ID = 'C07'
LEVEL = 'exploration'
PRELOAD = ['frame.geometry.geometry', 'frame.netlist.netlist', 'frame.die.die', 'frame.allocation.allocation', 'ruamel.yaml', 'mc.common', 'tools.rect.satmanager', 'tools.rect.pseudobool', 'mc.dpll']
RULE = ("single constraints: every clause (size<=3) and implication over the 6 literals of 3 variables; at-most-one groups of size 0..7 x {pairwise, "
        "chained k=3,4,5} x 4 polarity patterns (+ a repeated literal); PB inequalities with 3 terms (coefficients -3..3, 4 polarity patterns, optional "
        "4th term repeating a variable), every bound from min-1 to max+1, operators >=,<=,>,<,=, both ROBDD constructions, an expression on the right-hand side; one expression object used as the left-hand side of two inequalities; "
        "histories: all ordered pairs from a 40-constraint sub-alphabet, posted to the same manager or to earlier managers (diagram store not reset). "
        "For each case all 2^n assignments are evaluated. Non-trivial = cases whose constraint set is neither a tautology nor a contradiction; distinct by construction.")
ASSUMPTIONS = ["a call that raises counts as 'refused' and is legal provided the manager's clause list is unchanged",
               "auxiliary variables are those the manager creates itself (robdd_*, aux_*); user variables are created with newvar()",
               "the deprecated prioritize()/setflipped() renumbering is not part of the statement and is not exercised"]
BOUNDS = {'quick': 'PB: 3 variables coefficients -3..3 (+ repeated 4th term), 4 variables coefficients -2..3; 40x40 ordered pairs and 12^3 ordered triples of encodings', 'thorough': 'PB: 4 variables coefficients -3..3; 40^3 ordered triples of encodings'}

VARS = ['a', 'b', 'c', 'd', 'e', 'f', 'g']


# ------------------------------------------------------------------ constraint language
def lit_true(l, alpha):
    return alpha[l[0]] == bool(l[1])


def holds(con, alpha):
    kind = con[0]
    if kind == 'clause':
        return any(lit_true(l, alpha) for l in con[1])
    if kind == 'imply':
        return (not all(lit_true(l, alpha) for l in con[1])) or lit_true(con[2], alpha)
    if kind == 'amo':
        return sum(1 for l in con[3] if lit_true(l, alpha)) <= 1
    if kind == 'pb':
        lhs = sum(c for (v, s, c) in con[1] if alpha[v] == bool(s))
        rhs = con[3] if isinstance(con[3], int) else con[3][0] + sum(c for (v, s, c) in con[3][1] if alpha[v] == bool(s))
        op = con[2]
        return lhs >= rhs if op == '>=' else lhs <= rhs if op == '<=' else lhs > rhs if op == '>' else \
            lhs < rhs if op == '<' else lhs == rhs
    if kind == 'pbshared':
        return all(holds(['pb', con[1], op, rhs, 0], alpha) for (op, rhs) in con[2])
    raise ValueError(con)


def con_vars(con):
    if con[0] == 'clause':
        return {l[0] for l in con[1]}
    if con[0] == 'imply':
        return {l[0] for l in con[1]} | {con[2][0]}
    if con[0] == 'amo':
        return {l[0] for l in con[3]}
    vs = {t[0] for t in con[1]}
    if con[0] == 'pbshared':
        for (_, rhs) in con[2]:
            if not isinstance(rhs, int):
                vs |= {t[0] for t in rhs[1]}
        return vs
    if not isinstance(con[3], int):
        vs |= {t[0] for t in con[3][1]}
    return vs


class ArgumentMutated(Exception):
    pass


def blow_up_store(target):
    """encode large inequalities in OTHER managers until the process-wide diagram store holds more than `target` nodes"""
    import tools.rect.pseudobool as pbm
    import tools.rect.satmanager as smm
    k = 0
    while len(pbm.memory) <= target:
        m = smm.SATManager()
        xs = [m.newvar(f'v{i}') for i in range(18)]
        e = pbm.Expr()
        for i, x in enumerate(xs):
            e = e + (3 + ((7 * i + 11 * k) % 23)) * x
        m.pseudoboolencoding(e >= 60 + (k % 40))
        k += 1
    return k


class Posting:
    """posts constraints of the language to a real SATManager"""

    def __init__(self):
        import tools.rect.satmanager as sm
        import tools.rect.pseudobool as pb
        self.pb = pb
        self.sm = sm.SATManager()
        self.lits = {}
        self.exprs = []     # (Expr, terms) of posted pb left-hand sides, for evalexpr

    def lit(self, l):
        v, s = l[0], bool(l[1])
        if v not in self.lits:
            self.lits[v] = self.sm.newvar(v)
        L = self.lits[v]
        return L if s else -L

    def post(self, con):
        """returns None if accepted, or the exception if refused"""
        pb = self.pb
        kind = con[0]
        for v in sorted(con_vars(con)):
            self.lit((v, True))
        if kind == 'clause':
            # the clause is handed over in a list that the caller goes on using (a scratch list that is cleared and refilled
            # for every clause): what was posted must not follow the later contents of that list
            if not hasattr(self, 'scratch'):
                self.scratch = []
            self.scratch.clear()
            self.scratch.extend(self.lit(l) for l in con[1])
            self.sm.add_clause(self.scratch)
        elif kind == 'imply':
            ls = [self.lit(l) for l in con[1]]
            keep = list(ls)
            self.sm.imply(ls, self.lit(con[2]))
            if ls != keep or any(a is not b for a, b in zip(ls, keep)):
                raise ArgumentMutated('imply changed the list of literals it was given')
        elif kind == 'amo':
            ls = [self.lit(l) for l in con[3]]
            keep = list(ls)
            if con[1] == 'quad':
                self.sm.quadraticencoding(ls)
            else:
                self.sm.heuleencoding(ls, con[2])
            # the caller goes on using its list (the exactly-one idiom posts the same list as a clause next)
            if len(ls) != len(keep) or any(a is not b for a, b in zip(ls, keep)):
                raise ArgumentMutated(f'{con[1]} encoding changed the list of literals it was given')
        elif kind == 'pbshared':
            # ONE expression object used as the left-hand side of several inequalities (as rect.solve does with its
            # area expressions): posting one must not change what the next one means
            e = pb.Expr()
            for (v, s, c) in con[1]:
                e = e + c * self.lit((v, s))
            for (op, rhs_) in con[2]:
                if isinstance(rhs_, int):
                    rhs = rhs_
                else:
                    rhs = pb.Expr() + rhs_[0]
                    for (v, s, c) in rhs_[1]:
                        rhs = rhs + c * self.lit((v, s))
                q = (e >= rhs) if op == '>=' else (e <= rhs)
                self.sm.pseudoboolencoding(q, bool(con[3]))
            self.exprs.append((e, con[1]))
        else:
            if len(con) > 5 and con[5] == 'negmul':
                # the same left-hand side written as -1 * (1 - sum) + 1 (a negative multiple of an expression with a constant)
                e = pb.Expr() + 1
                for (v, s, c) in con[1]:
                    e = e + (-c) * self.lit((v, s))
                e = e * -1 + 1
            elif len(con) > 5 and con[5] == 'twice':
                # 2 * (sum) compared with 2 * bound is the same constraint
                e = pb.Expr()
                for (v, s, c) in con[1]:
                    e = e + c * self.lit((v, s))
                e = 2 * e
            else:
                e = pb.Expr()
                for (v, s, c) in con[1]:
                    e = e + c * self.lit((v, s))
            if len(con) > 5 and con[5] == 'twice':
                rhs = 2 * con[3]
            elif isinstance(con[3], int):
                rhs = con[3]
            else:
                rhs = pb.Expr() + con[3][0]
                for (v, s, c) in con[3][1]:
                    rhs = rhs + c * self.lit((v, s))
            op = con[2]
            q = (e >= rhs) if op == '>=' else (e <= rhs) if op == '<=' else (e > rhs) if op == '>' else \
                (e < rhs) if op == '<' else (e == rhs)
            self.exprs.append((e, [[v, s, 2 * c] for (v, s, c) in con[1]] if len(con) > 5 and con[5] == 'twice' else con[1]))
            self.sm.pseudoboolencoding(q, bool(con[4]))

    def cnf(self):
        names = {}
        out = []
        for cl in self.sm.clauses:
            c = []
            for L in cl:
                k = names.setdefault(L.v, len(names) + 1)
                c.append(k if L.s else -k)
            out.append(c)
        return out, names

    def snapshot(self):
        return [[(L.v, L.s) for L in cl] for cl in self.sm.clauses]


def judge(case, res, P, accepted, uservars, attrs):
    """the manager P holds exactly the accepted constraints: compare its CNF with them on every assignment"""
    cnf, names = P.cnf()
    uservars = sorted(uservars)
    nsat = 0
    for bits in itertools.product((False, True), repeat=len(uservars)):
        alpha = dict(zip(uservars, bits))
        want = all(holds(c, alpha) for c in accepted)
        assum = []
        for v, b in alpha.items():
            k = names.get('def_' + v)
            if k is not None:
                assum.append(k if b else -k)
        got = dpll.satisfiable(cnf, assum)
        nsat += want
        if got != want:
            res.violation('spurious-assignment' if got else 'lost-assignment', case, attrs,
                          f'assignment {alpha} {"satisfies" if want else "violates"} the posted constraints',
                          f'CNF + assignment is {"satisfiable" if got else "unsatisfiable"}')
            return nsat, False
    # ---- solve()
    try:
        ans = P.sm.solve()
    except Exception as e:  # noqa
        res.violation('solve-raises', case, attrs, 'a verdict', f'{type(e).__name__}: {e}')
        return nsat, False
    if bool(ans) != (nsat > 0):
        res.violation('solve-verdict', case, attrs, nsat > 0, ans)
        return nsat, False
    if ans:
        alpha = {}
        for v in uservars:
            val = P.sm.value(P.lits[v])
            nval = P.sm.value(-P.lits[v])
            if val not in (0, 1) or nval != 1 - val:
                res.violation('model-value', case, attrs, '0/1 and complement', (val, nval))
                return nsat, False
            alpha[v] = bool(val)
        if not all(holds(c, alpha) for c in accepted):
            res.violation('model-violates', case, attrs, 'the exposed model satisfies every posted constraint', alpha)
        for (e, terms) in P.exprs:
            direct = sum(c for (v, s, c) in terms if alpha[v] == bool(s))
            if P.sm.evalexpr(e) != direct:
                res.violation('evalexpr', case, attrs, direct, P.sm.evalexpr(e))
    return nsat, True


def check_case(case, res):
    """case = dict(pre=[constraints encoded one by one in earlier managers], same=[constraints in the probed manager])"""
    reset_frame_state()
    import tools.rect.pseudobool as pbm
    pbm.memory[:] = [0, 1]
    pbm.mmap.clear()
    attrs = dict(kinds=sorted({c[0] + (':' + str(c[2]) if c[0] == 'pb' else '') for c in case['same'] if c[0] != 'blowup'}),
                 history=len(case.get('pre', [])), n=len(case['same']))
    for con in case.get('pre', []):
        Q = Posting()
        try:
            Q.post(con)
        except Exception:  # noqa  (a refusal in the history is fine)
            pass
    P = Posting()
    accepted = []
    uservars = set()
    for con in case['same']:
        if con[0] == 'blowup':
            # not a constraint: other managers fill the process-wide diagram store beyond a size threshold between two
            # postings of the probed manager
            blow_up_store(con[1])
            attrs['store_blown_to'] = con[1]
            continue
        uservars |= con_vars(con)
        before = P.snapshot()
        try:
            P.post(con)
            accepted.append(con)
            if case.get('solve_between') and con is not case['same'][-1]:
                # the manager is solved after every posting (an incremental use): the final answer is the one for ALL postings
                P.sm.solve()
        except ArgumentMutated as e:
            res.violation('argument-mutated', case, dict(attrs, kind=con[0]), 'the caller\'s list is left as it was', str(e))
            accepted.append(con)
        except Exception as e:  # noqa
            if P.snapshot() != before:
                res.violation('refused-but-changed', case, dict(attrs, exc=type(e).__name__),
                              'a refused constraint leaves the clause list unchanged', 'clauses were added')
            res.counters['refused:' + con[0] + (':' + str(con[2]) if con[0] == 'pb' else '')] += 1
    if not uservars:
        uservars = {'a'}
        P.lit(('a', True))
    nsat, ok = judge(case, res, P, accepted, uservars, attrs)
    total = 2 ** len(uservars)
    cls = 'refused-all' if not accepted else 'tautology' if nsat == total else 'contradiction' if nsat == 0 else 'contingent'
    res.case(cls, nontrivial=(cls == 'contingent'))


# ------------------------------------------------------------------ enumeration
POL3 = [(1, 1, 1), (1, 0, 1), (0, 0, 0), (1, 1, 0)]
OPS = ['>=', '<=', '>', '<', '=']


def pb_cases(nvars, coefs, with_repeat):
    vs = VARS[:nvars]
    for pol in (POL3 if nvars == 3 else [(1, 1, 1, 1), (1, 0, 1, 0), (0, 0, 0, 0)]):
        for cs in itertools.product(coefs, repeat=nvars):
            terms = [[v, s, c] for v, s, c in zip(vs, pol, cs)]
            variants = [terms]
            if with_repeat and cs[0] in (1, 2) and cs[1] != 0:
                variants.append(terms + [[vs[0], 1 - pol[0], 2]])       # the same variable again, opposite polarity
            for t in variants:
                lo = sum(min(0, c) for (_, _, c) in t)
                hi = sum(max(0, c) for (_, _, c) in t)
                for b in range(lo - 1, hi + 2):
                    for op in OPS:
                        for cd in (0, 1):
                            if cd and op in ('>', '<', '='):
                                continue        # the flag only reaches the '>=' diagram construction
                            yield ['pb', t, op, b, cd]


def amo_cases():
    for n in range(0, 8):
        vs = VARS[:n]
        pols = [[1] * n, [0] * n, [i % 2 for i in range(n)]]
        for pol in pols[:(1 if n == 0 else 3)]:
            lits = [[v, s] for v, s in zip(vs, pol)]
            groups = [lits]
            if n >= 2:
                groups.append(lits + [[vs[0], pol[0]]])             # a literal listed twice
                groups.append(lits[:-1] + [[vs[0], 1 - pol[0]]])    # a literal and its complement
            for g in groups:
                yield ['amo', 'quad', 0, g]
                for k in (3, 4, 5):
                    yield ['amo', 'heule', k, g]


def clause_cases():
    lits = [[v, s] for v in VARS[:3] for s in (1, 0)]
    for k in range(0, 4):
        for c in itertools.combinations(lits, k):
            yield ['clause', [list(l) for l in c]]
    for k in range(0, 3):
        for c in itertools.combinations(lits, k):
            for l2 in lits:
                yield ['imply', [list(l) for l in c], list(l2)]


def sub_alphabet(n=40):
    """a fixed mixed sub-alphabet for histories / conjunctions"""
    a = [
        ['pb', [['a', 1, 2], ['b', 1, 2], ['c', 1, 1]], '>=', 3, 0],
        ['pb', [['a', 1, 2], ['b', 1, 2], ['c', 1, 1]], '>=', 2, 0],
        ['pb', [['a', 1, 2], ['b', 1, 2], ['c', 1, 1]], '>=', 3, 1],
        ['pb', [['a', 1, 3], ['b', 0, 2], ['c', 1, 1]], '>=', 3, 0],
        ['pb', [['a', 1, 3], ['b', 0, 2], ['c', 1, 1]], '<=', 3, 0],
        ['pb', [['a', 1, 1], ['b', 1, 1], ['c', 1, 1]], '<=', 1, 0],
        ['pb', [['a', 1, 1], ['b', 1, 1], ['c', 1, 1]], '>=', 2, 0],
        ['pb', [['a', 1, 1], ['b', 1, 1], ['c', 1, 1]], '>=', 1, 0],
        ['pb', [['a', 1, 1], ['b', 1, 1]], '>', 0, 0],
        ['pb', [['a', 1, 1], ['b', 1, 1]], '<', 2, 0],
        ['pb', [['a', 1, 1], ['b', 1, 1], ['c', 1, 1]], '=', 1, 0],
        ['pb', [['a', 1, 2], ['b', 1, -3], ['c', 0, 1]], '>=', 0, 0],
        ['pb', [['a', 1, 2], ['b', 1, -3], ['c', 0, 1]], '>=', 0, 1],
        ['pb', [['a', 0, 2], ['b', 0, 2], ['c', 0, 3]], '>=', 4, 0],
        ['pb', [['a', 1, 3], ['b', 1, 3], ['c', 1, 2]], '<=', 4, 1],
        ['pb', [['a', 1, 1], ['b', 1, 1], ['c', 1, 1]], '>=', 4, 0],
        ['pb', [['a', 1, 1], ['b', 1, 1], ['c', 1, 1]], '>=', 0, 0],
        ['pb', [['a', 1, 2], ['b', 1, 1]], '>=', [0, [['c', 1, 2]]], 0],
        ['pb', [['a', 1, 2], ['b', 1, 2], ['c', 1, 1], ['d', 1, 3]], '>=', 4, 0],
        ['pb', [['a', 1, 2], ['b', 1, 2], ['c', 1, 1], ['d', 1, 3]], '>=', 4, 1],
        ['pb', [['a', 1, 2], ['b', 1, 2], ['c', 1, 1], ['d', 1, 3]], '<=', 4, 0],
        ['pb', [['b', 1, 2], ['c', 1, 1], ['d', 1, 3]], '>=', 3, 0],
        ['amo', 'heule', 3, [['a', 1], ['b', 1], ['c', 1], ['d', 1]]],
        ['amo', 'heule', 3, [['a', 1], ['b', 0], ['c', 1], ['d', 0], ['e', 1]]],
        ['amo', 'heule', 4, [['a', 0], ['b', 0], ['c', 0], ['d', 0], ['e', 0]]],
        ['amo', 'quad', 0, [['a', 1], ['b', 1], ['c', 1]]],
        ['amo', 'quad', 0, [['a', 0], ['c', 1]]],
        ['clause', [['a', 1], ['b', 1]]],
        ['clause', [['a', 0], ['c', 1]]],
        ['clause', [['b', 0]]],
        ['clause', [['a', 1], ['b', 0], ['c', 0]]],
        ['clause', [['c', 1]]],
        ['clause', []],
        ['imply', [['a', 1], ['b', 1]], ['c', 1]],
        ['imply', [['a', 1]], ['b', 0]],
        ['imply', [], ['a', 1]],
        ['imply', [['c', 0], ['d', 1]], ['a', 0]],
        ['pb', [['a', 1, 1], ['b', 1, 1], ['c', 1, 1], ['d', 1, 1]], '>=', 2, 0],
        ['pb', [['a', 1, 1], ['b', 1, 1], ['c', 1, 1], ['d', 1, 1]], '<=', 2, 0],
        ['pb', [['a', 1, 3], ['b', 1, 2], ['c', 1, 2], ['d', 1, 1]], '>=', 5, 1],
    ]
    return a[:n]


def shared_cases():
    for cs in itertools.product((1, 2, 3), repeat=3):
        terms = [[v, 1, c] for v, c in zip('abc', cs)]
        for var in 'abc':
            for k in (1, 2):
                for b2 in (1, 2, 3):
                    for cd in (0, 1):
                        # load >= var + k   and then   load >= b2   (and the other order)
                        yield ['pbshared', terms, [('>=', [k, [[var, 1, 1]]]), ('>=', b2)], cd]
                        yield ['pbshared', terms, [('<=', [k + 2, [[var, 0, 2]]]), ('>=', b2)], cd]
                        yield ['pbshared', terms, [('>=', b2), ('>=', [k, [[var, 1, 1]]])], cd]


def shards(tier):
    out = []
    out.append(dict(kind='shared'))
    out.append(dict(kind='clauses'))
    out.append(dict(kind='amo'))
    if tier == 'quick':
        for c0 in range(-3, 4):
            for p in range(len(POL3)):
                out.append(dict(kind='pb', nvars=3, c0=c0, pol=p))
        for c0 in range(-2, 4):
            for c1 in range(-2, 4):
                out.append(dict(kind='pb4', c0=c0, c1=c1, coefs=[-2, -1, 0, 1, 2, 3]))
        n = 40
        for i in range(n):
            out.append(dict(kind='pairs', i=i, n=n))
        for i in range(12):
            for j in range(12):
                out.append(dict(kind='triples', i=i, j=j, n=12))
    else:
        for c0 in range(-3, 4):
            for p in range(len(POL3)):
                out.append(dict(kind='pb', nvars=3, c0=c0, pol=p))
        for c0 in range(-3, 4):
            for c1 in range(-3, 4):
                out.append(dict(kind='pb4', c0=c0, c1=c1, coefs=[-3, -2, -1, 0, 1, 2, 3]))
        for i in range(40):
            out.append(dict(kind='pairs', i=i, n=40))
        for i in range(40):
            for j in range(40):
                out.append(dict(kind='triples', i=i, j=j, n=40))
    return out


def run_shard(shard, tier, res):
    k = shard['kind']
    if k == 'shared':
        for con in shared_cases():
            check_case(dict(pre=[], same=[con]), res)
        return
    if k == 'clauses':
        for con in clause_cases():
            check_case(dict(pre=[], same=[con]), res)
        res.samples.append(dict(pre=[], same=[['imply', [['a', 1], ['b', 0]], ['c', 1]]]))
    elif k == 'amo':
        for con in amo_cases():
            check_case(dict(pre=[], same=[con]), res)
        res.samples.append(dict(pre=[], same=[['amo', 'heule', 3, [['a', 1], ['b', 1], ['c', 1], ['d', 1], ['e', 1]]]]))
    elif k == 'blowup':
        alpha = sub_alphabet(40)
        pbs = [c for c in alpha if c[0] == 'pb'][shard['i']::4][:2]
        a, b = pbs[0], pbs[-1]
        check_case(dict(pre=[], same=[a, ['blowup', shard['target']], b]), res)
        check_case(dict(pre=[], same=[b, a, ['blowup', shard['target']], a, ['clause', [['a', 1], ['b', 0]]]]), res)
    elif k == 'pb':
        for con in pb_cases(3, range(-3, 4), True):
            if con[1][0][2] != shard['c0'] or tuple(t[1] for t in con[1][:3]) != POL3[shard['pol']]:
                continue
            check_case(dict(pre=[], same=[con]), res)
            if con[4] == 0 and len(con[1]) == 3:
                # the same inequality with its left-hand side built through integer multiples of expressions
                check_case(dict(pre=[], same=[con + ['negmul']]), res)
                if con[2] in ('>=', '<'):
                    check_case(dict(pre=[], same=[con + ['twice']]), res)
        res.samples.append(dict(pre=[], same=[['pb', [['a', 1, shard['c0']], ['b', 0, 2], ['c', 1, -1]], '>=', 1, 0]]))
    elif k == 'pb4':
        for con in pb_cases(4, shard['coefs'], False):
            if con[1][0][2] != shard['c0'] or con[1][1][2] != shard['c1']:
                continue
            check_case(dict(pre=[], same=[con]), res)
    elif k == 'pairs':
        alpha = sub_alphabet(shard['n'])
        a = alpha[shard['i']]
        for b in alpha:
            check_case(dict(pre=[], same=[a, b]), res)         # both in the probed manager
            check_case(dict(pre=[], same=[a, b], solve_between=True), res)     # ... with a solve() after the first
            check_case(dict(pre=[a], same=[b]), res)           # a encoded earlier in another manager
            check_case(dict(pre=[a, b], same=[b, a]), res)     # both earlier, then both again in the other order
        res.samples.append(dict(pre=[a], same=[alpha[(shard['i'] + 7) % len(alpha)]]))
    else:
        alpha = sub_alphabet(shard['n'])
        a, b = alpha[shard['i']], alpha[shard['j']]
        for c in alpha:
            check_case(dict(pre=[a], same=[b, c]), res)
            check_case(dict(pre=[a, b], same=[c]), res)
            check_case(dict(pre=[], same=[a, b, c]), res)


def replay(case):
    from mc.engine import ShardResult
    res = ShardResult()
    check_case(case, res)
    return res.violations
