"""
C09 - Legaliser constraint system admits exactly the legal floorplans.

For every netlist of a small alphabet of single-trunk-orthogon modules (soft / hard / fixed, integer and fractional
coordinates) one real legaliser Model is built (netlist_to_utils -> Model), its annealing slack is driven to 0 through
the model's own time variable, and then EVERY configuration of a finite menu is assigned to the model's variables:
the input itself, every legal relocation / growth / slide, and from each of those every single-clause perturbation.
Oracle: an independent legality predicate with decision margins;  all equations met  <=>  legal.
"""
from __future__ import annotations

import copy
import itertools

from mc.common import reset_frame_state, quiet

ID = 'C09'
LEVEL = 'exploration'
PRELOAD = ['frame.geometry.geometry', 'frame.netlist.netlist', 'frame.die.die', 'frame.allocation.allocation', 'ruamel.yaml', 'mc.common', 'tools.legalfloor.legalfloor']
RULE = ("netlists: 1-3 modules from 27 shapes (soft/hard/fixed x {single rectangle, trunk+N, trunk+N+N, trunk+E+W, trunk+S(+W), two siblings on each side listed against their order, two siblings on each of two opposite sides, a branch centred on the trunk axis, a branch larger than its trunk also listed before it}, two of them with integer "
        "YAML coordinates) placed in distinct slots of the die, max_ratio in {2,3}; configurations per model: input; each movable module translated to each free slot; "
        "soft modules grown 10%; each branch slid 0.2 along its side; and from each legal configuration every perturbation of the menu {cross each die border by 0.5, "
        "stretch a soft rectangle beyond the ratio limit, shrink a soft module's area by 36%, detach a branch by 0.25, slide a branch 0.5 past the trunk end, swap two "
        "siblings, overlap two siblings by 0.3, overlap two modules by >=0.5, push a module 0.4 deep onto each single branch of another module, change a hard rectangle's width by 0.25, change a hard branch offset by 0.25, move a fixed "
        "module by 0.5}; the input configuration of every 1-module netlist and of pairs with softN / hard1 written in other units (all lengths x 100000.3); the complete configuration menu on every 1-module netlist (and pairs with softN) written in units of 1e-4 and 1e3, and on netlists whose rectangles were assigned through Netlist.assign_rectangles; the bounds of the model's variables count as part of the system. Non-trivial = configurations other than the unmodified input; distinct by construction.")
ASSUMPTIONS = ["annealing slack set to ~0 via model.time (0.3*0.9^1000); the step-cap ('radius'), time ('Exact Value') and switched-off-rectangle ('Rid') groups are bookkeeping of the "
               "annealing loop, not legality, and are excluded",
               "clauses are judged with margins: satisfied with slack or tight by construction, violated by >= 0.1; configurations with a clause in between are skipped as ambiguous "
               "(counted in the evidence as ambiguous-configuration)",
               "hard modules are only translated in legal configurations (rotations / mirror images are outside the enumerated space)"]
BOUNDS = {'quick': 'all 1-module netlists, 2-module netlists over 9 shapes, 3-module netlists over 5 shapes; die 8x8 (10x8 for the integer shapes)',
          'thorough': '2-module netlists over all 14 shapes, 3-module over 8 shapes, both ratio limits, second die 9.5x8.5'}

# rectangles in slot-local coordinates: (role, cx, cy, w, h)
T0 = ('T', 2.0, 1.5, 2.4, 1.6)
BR = {
    'N': ('N', 1.6, 2.8, 1.2, 1.0), 'N2': ('N', 2.8, 2.7, 0.8, 0.8),
    'E': ('E', 3.5, 1.5, 0.6, 0.8), 'W': ('W', 0.5, 1.5, 0.6, 0.8), 'S': ('S', 2.0, 0.4, 1.0, 0.6),
}
# pairs of siblings on the other sides, LISTED in the order opposite to their position along the side
W1, W2 = ('W', 0.5, 1.9, 0.6, 0.6), ('W', 0.5, 1.1, 0.6, 0.6)
E1, E2 = ('E', 3.5, 1.9, 0.6, 0.6), ('E', 3.5, 1.1, 0.6, 0.6)
S1, S2 = ('S', 2.6, 0.4, 0.8, 0.6), ('S', 1.4, 0.4, 0.8, 0.6)
ONE = ('T', 2.0, 2.0, 2.0, 1.6)
SHAPES = {
    'soft1': ('soft', [ONE]), 'softN': ('soft', [T0, BR['N']]), 'softNN': ('soft', [T0, BR['N'], BR['N2']]),
    'softEW': ('soft', [T0, BR['E'], BR['W']]), 'softS': ('soft', [T0, BR['S']]),
    'hard1': ('hard', [ONE]), 'hardN': ('hard', [T0, BR['N']]), 'hardE': ('hard', [T0, BR['E']]),
    'hardNN': ('hard', [T0, BR['N'], BR['N2']]), 'hardSW': ('hard', [T0, BR['S'], BR['W']]),
    'fixed1': ('fixed', [ONE]), 'fixedN': ('fixed', [T0, BR['N']]),
    'softWW': ('soft', [T0, W1, W2]), 'softEE': ('soft', [T0, E1, E2]), 'softSS': ('soft', [T0, S1, S2]),
    'softNNr': ('soft', [T0, BR['N2'], BR['N']]), 'hardWW': ('hard', [T0, W1, W2]), 'hardNE': ('hard', [T0, BR['N'], BR['E']]),
    'hardT': ('hard', [T0, ('N', 2.0, 2.8, 1.0, 1.0)]),          # a branch centred on the trunk axis (offset exactly 0)
    # integer coordinates (written as YAML ints): trunk [2,2,2,2] + east branch [3.5->4,2,...]: all ints
    'hardE_int': ('hard', [('T', 2, 2, 2, 2), ('E', 4, 2, 2, 2)]),
    'fixedE_int': ('fixed', [('T', 2, 2, 2, 2), ('E', 4, 2, 2, 2)]),
    # two siblings on each of two opposite sides (the equations of one side must not replace those of another)
    'softNNSS': ('soft', [T0, BR['N'], BR['N2'], S1, S2]), 'softEEWW': ('soft', [T0, E1, E2, W1, W2]),
    'hardNNSS': ('hard', [T0, BR['N'], BR['N2'], S1, S2]),
    # a branch with more area than its trunk (short wide trunk, long south branch); and a hard module whose larger east
    # branch is LISTED before its trunk in the document ('_rev': the document lists the rectangles in reverse order)
    'softSbig': ('soft', [('T', 2.0, 2.7, 2.0, 1.1), ('S', 2.0, 1.15, 1.4, 2.0)]),
    'hardEbig_rev': ('hard', [('T', 1.5, 2.0, 1.0, 2.0), ('E', 2.9, 2.0, 1.8, 1.2)]),
    'softWbig_rev': ('soft', [('T', 3.0, 2.0, 1.0, 2.0), ('W', 1.6, 2.0, 1.8, 1.2)]),
}
Q9 = ['soft1', 'softN', 'softNN', 'softEW', 'hard1', 'hardN', 'hardE_int', 'fixed1', 'fixedN', 'softWW', 'hardNE']
Q5 = ['softN', 'hardE', 'fixed1', 'softS', 'hardNN']
T8 = Q5 + ['softEW', 'fixedE_int', 'hardSW']


UNITS = [1e-4, 1e3]


def slots_of(die):
    W, H = die
    X = 4 if W < 10 else 5
    return [(0, 0), (X, 0), (0, 4), (X, 4)]


def place(shape, slot):
    kind, rects = SHAPES[shape]
    out = []
    for (role, cx, cy, w, h) in rects:
        out.append(dict(role=role, x=cx + slot[0], y=cy + slot[1], w=w, h=h))
    return kind, out


def num_as(shape, v):
    return int(v) if shape.endswith('_int') else float(v)


def build_model(case):
    import tools.legalfloor.legalfloor as lf
    from frame.netlist.netlist import Netlist
    die = case['die']
    slots = slots_of(die)
    mods = {}
    layout = []
    u = float(case.get('unit', 1.0))      # the design is WRITTEN in other units (all lengths x u); the oracle works in slot units

    def nu(shape, v):
        return num_as(shape, v) if u == 1.0 else float(v) * u
    for i, (shape, si) in enumerate(case['mods']):
        kind, rects = place(shape, slots[si])
        node = {'rectangles': [[nu(shape, r['x']), nu(shape, r['y']), nu(shape, r['w']), nu(shape, r['h'])]
                               for r in (reversed(rects) if shape.endswith('_rev') else rects)]}
        if kind == 'soft':
            node['area'] = sum((r['w'] * u) * (r['h'] * u) for r in rects)
        elif kind == 'hard':
            node['hard'] = True
        else:
            node['fixed'] = True
        mods[f'M{i}'] = node
        layout.append(dict(kind=kind, rects=rects, area=sum(r['w'] * r['h'] for r in rects)))
    names = list(mods)
    nets = [names] if len(names) >= 2 else []
    n = Netlist({'Modules': mods, 'Nets': nets})
    if case.get('assign'):
        # the rectangles were (re)assigned through the netlist's API after loading, as a floorplanning stage does
        n.assign_rectangles({nm: [list(r) for r in node['rectangles']] for nm, node in mods.items()})
    # the model lists the rectangles trunk first, then N, S, E, W in the order netlist_to_utils collects them
    with quiet():
        ml, al, xl, yl, wl, hl, hyper, og = lf.netlist_to_utils(n)
        model = lf.Model(ml, al, xl, yl, wl, hl, float(die[0]) * u, float(die[1]) * u, hyper, float(case['ratio']), og, 0.9, 0.3, 1.0, None)
        model.time.assign(1000)
    # map each model rectangle to the layout rectangle by initial coordinates
    index = []
    for mi, mm in enumerate(model.M):
        idx = []
        for j in range(len(mm.x)):
            key = (mm.x[j].evaluate() / u, mm.y[j].evaluate() / u, mm.w[j].evaluate() / u, mm.h[j].evaluate() / u)
            hit = [k for k, r in enumerate(layout[mi]['rects'])
                   if abs(r['x'] - key[0]) < 1e-9 and abs(r['y'] - key[1]) < 1e-9 and abs(r['w'] - key[2]) < 1e-9 and abs(r['h'] - key[3]) < 1e-9]
            idx.append(hit[0] if hit else None)
        index.append(idx)
    return model, layout, index


# ------------------------------------------------------------------ configurations
def legal_variants(layout, die, slots, used, ratio=None):
    """(description, configuration) : configurations are deep copies of layout with modified rectangles"""
    out = [('input', copy.deepcopy(layout))]
    if ratio:
        # a soft single-rectangle module elongated to 90% of the aspect-ratio limit of THIS model (same area, same centre):
        # legal under this limit, whatever limits other models of the process have
        for mi, m in enumerate(layout):
            if m['kind'] == 'soft' and len(m['rects']) == 1:
                for wide in (True, False):
                    c = copy.deepcopy(layout)
                    r = c[mi]['rects'][0]
                    a = r['w'] * r['h']
                    long_, short_ = (a * 0.9 * ratio) ** 0.5, (a / (0.9 * ratio)) ** 0.5
                    r['w'], r['h'] = (long_, short_) if wide else (short_, long_)
                    out.append((f'elongate M{mi} {"wide" if wide else "tall"}', c))
    free = [s for i, s in enumerate(slots) if i not in used]
    for mi, m in enumerate(layout):
        if m['kind'] != 'fixed':
            home = slots[used[mi]]
            for s in free:
                c = copy.deepcopy(layout)
                for r in c[mi]['rects']:
                    r['x'] += s[0] - home[0]
                    r['y'] += s[1] - home[1]
                out.append((f'translate M{mi}', c))
        if m['kind'] == 'soft':
            c = copy.deepcopy(layout)
            grow(c[mi]['rects'], 1.1)
            out.append((f'grow M{mi}', c))
            for bi in range(1, len(m['rects'])):
                for d in (0.2, -0.2):
                    c = copy.deepcopy(layout)
                    r = c[mi]['rects'][bi]
                    if r['role'] in 'NS':
                        r['x'] += d
                    else:
                        r['y'] += d
                    out.append((f'slide M{mi}.{bi} {d}', c))
    return out


def grow(rects, f):
    """scale the trunk by f about its centre and keep the branches attached (same size, pushed outwards)"""
    t = rects[0]
    t['w'] *= f
    t['h'] *= f
    for r in rects[1:]:
        if r['role'] == 'N':
            r['y'] = t['y'] + t['h'] / 2 + r['h'] / 2
        elif r['role'] == 'S':
            r['y'] = t['y'] - t['h'] / 2 - r['h'] / 2
        elif r['role'] == 'E':
            r['x'] = t['x'] + t['w'] / 2 + r['w'] / 2
        elif r['role'] == 'W':
            r['x'] = t['x'] - t['w'] / 2 - r['w'] / 2


def perturbations(cfg, die):
    W, H = die
    out = []
    for mi, m in enumerate(cfg):
        rs = m['rects']
        lo_x = min(r['x'] - r['w'] / 2 for r in rs)
        lo_y = min(r['y'] - r['h'] / 2 for r in rs)
        hi_x = max(r['x'] + r['w'] / 2 for r in rs)
        hi_y = max(r['y'] + r['h'] / 2 for r in rs)
        if m['kind'] != 'fixed':
            for name, dx, dy in (('west', -lo_x - 0.5, 0), ('south', 0, -lo_y - 0.5), ('east', W - hi_x + 0.5, 0), ('north', 0, H - hi_y + 0.5)):
                c = copy.deepcopy(cfg)
                for r in c[mi]['rects']:
                    r['x'] += dx
                    r['y'] += dy
                out.append((f'cross-{name} M{mi}', c))
        if m['kind'] == 'soft':
            c = copy.deepcopy(cfg)          # stretch the last rectangle of the module well beyond the ratio limit
            r = c[mi]['rects'][-1]
            if len(rs) == 1:
                r['w'], r['h'] = r['w'] * 2.4, r['h'] / 2.0
            elif r['role'] in 'NS':
                r['h'] = r['h'] * 5
                r['y'] += (2 * r['h'] / 5) * (1 if r['role'] == 'N' else -1)
            else:
                r['w'] = r['w'] * 5
                r['x'] += (2 * r['w'] / 5) * (1 if r['role'] == 'E' else -1)
            out.append((f'stretch M{mi}', c))
            c = copy.deepcopy(cfg)
            grow(c[mi]['rects'], 0.6)
            out.append((f'shrink M{mi}', c))
        for bi in range(1, len(rs)):
            role = rs[bi]['role']
            c = copy.deepcopy(cfg)
            r = c[mi]['rects'][bi]
            if role == 'N':
                r['y'] += 0.25
            elif role == 'S':
                r['y'] -= 0.25
            elif role == 'E':
                r['x'] += 0.25
            else:
                r['x'] -= 0.25
            out.append((f'detach M{mi}.{bi}', c))
            c = copy.deepcopy(cfg)
            r, t = c[mi]['rects'][bi], c[mi]['rects'][0]
            if role in 'NS':
                r['x'] = t['x'] + t['w'] / 2 - r['w'] / 2 + 0.5
            else:
                r['y'] = t['y'] + t['h'] / 2 - r['h'] / 2 + 0.5
            out.append((f'overhang M{mi}.{bi}', c))
            if m['kind'] == 'hard':
                c = copy.deepcopy(cfg)
                c[mi]['rects'][bi]['w'] += 0.25
                if role in 'EW':
                    c[mi]['rects'][bi]['x'] += 0.125 * (1 if role == 'E' else -1)
                out.append((f'hard-resize M{mi}.{bi}', c))
                c = copy.deepcopy(cfg)
                if role in 'NS':
                    c[mi]['rects'][bi]['x'] -= 0.25
                else:
                    c[mi]['rects'][bi]['y'] -= 0.25
                out.append((f'hard-offset M{mi}.{bi}', c))
        for side in 'NSEW':
            sib = [bi for bi in range(1, len(rs)) if rs[bi]['role'] == side]
            if len(sib) != 2:
                continue
            ax, ext = ('x', 'w') if side in 'NS' else ('y', 'h')
            a, b = sorted(sib, key=lambda k: rs[k][ax])            # a before b along the side
            c = copy.deepcopy(cfg)
            ra, rb, t = c[mi]['rects'][a], c[mi]['rects'][b], c[mi]['rects'][0]
            ra[ax], rb[ax] = t[ax] + t[ext] / 2 - ra[ext] / 2, t[ax] - t[ext] / 2 + rb[ext] / 2           # swapped, apart
            out.append((f'swap-siblings-{side} M{mi}', c))
            c = copy.deepcopy(cfg)
            ra, rb = c[mi]['rects'][a], c[mi]['rects'][b]
            rb[ax] = ra[ax] + ra[ext] / 2 + rb[ext] / 2 - 0.3                                           # overlapping by 0.3
            out.append((f'overlap-siblings-{side} M{mi}', c))
        if m['kind'] == 'hard':
            c = copy.deepcopy(cfg)
            c[mi]['rects'][0]['w'] -= 0.25
            for r in c[mi]['rects'][1:]:
                if r['role'] == 'E':
                    r['x'] -= 0.125
                elif r['role'] == 'W':
                    r['x'] += 0.125
            out.append((f'hard-resize M{mi}.0', c))
        if m['kind'] == 'fixed':
            c = copy.deepcopy(cfg)
            for r in c[mi]['rects']:
                r['x'] += 0.5
            out.append((f'move-fixed M{mi}', c))
        for mj in range(len(cfg)):
            if mj != mi and m['kind'] != 'fixed':
                # push module mi from outside onto each BRANCH of module mj (0.4 deep), so that only a rectangle pair
                # (its trunk or one of its branches, that branch) overlaps - not the two trunks
                for bj in range(1, len(cfg[mj]['rects'])):
                    rb = cfg[mj]['rects'][bj]
                    for ri in range(len(rs)):
                        c = copy.deepcopy(cfg)
                        ra = c[mi]['rects'][ri]
                        if rb['role'] == 'N':
                            dx, dy = rb['x'] - ra['x'], (rb['y'] + rb['h'] / 2 - 0.4) - (ra['y'] - ra['h'] / 2)
                        elif rb['role'] == 'S':
                            dx, dy = rb['x'] - ra['x'], (rb['y'] - rb['h'] / 2 + 0.4) - (ra['y'] + ra['h'] / 2)
                        elif rb['role'] == 'E':
                            dx, dy = (rb['x'] + rb['w'] / 2 - 0.4) - (ra['x'] - ra['w'] / 2), rb['y'] - ra['y']
                        else:
                            dx, dy = (rb['x'] - rb['w'] / 2 + 0.4) - (ra['x'] + ra['w'] / 2), rb['y'] - ra['y']
                        for r in c[mi]['rects']:
                            r['x'] += dx
                            r['y'] += dy
                        out.append((f'overlap M{mi}.{ri} onto branch M{mj}.{bj}', c))
                c = copy.deepcopy(cfg)
                ta, tb = c[mi]['rects'][0], cfg[mj]['rects'][0]
                dx, dy = tb['x'] - ta['x'] + 0.3, tb['y'] - ta['y'] + 0.2
                for r in c[mi]['rects']:
                    r['x'] += dx
                    r['y'] += dy
                out.append((f'overlap M{mi} onto M{mj}', c))
    return out


# ------------------------------------------------------------------ the independent legality predicate
OK, BAD, AMB = 'ok', 'bad', 'ambiguous'


def status(v, ok_at=1e-7, bad_at=0.1):
    return OK if v <= ok_at else BAD if v >= bad_at else AMB


def legality(cfg, base, die, ratio):
    """-> dict clause -> status.  cfg: configuration, base: the input floorplan (original shapes and places)"""
    W, H = die
    st = {}
    v = max(max(-(r['x'] - r['w'] / 2), -(r['y'] - r['h'] / 2), r['x'] + r['w'] / 2 - W, r['y'] + r['h'] / 2 - H)
            for m in cfg for r in m['rects'])
    st['inside-die'] = status(v)
    rmax = max(max(r['w'] / r['h'], r['h'] / r['w']) for m in cfg for r in m['rects'])
    st['aspect-ratio'] = OK if rmax <= ratio - 1e-3 else BAD if rmax >= ratio + 0.1 else AMB
    v = max([m0['area'] - sum(r['w'] * r['h'] for r in m['rects']) for m, m0 in zip(cfg, base) if m['kind'] == 'soft'] + [-1.0])
    st['soft-area'] = status(v)
    va = 0.0
    for m, m0 in zip(cfg, base):
        t = m['rects'][0]
        sides = {}
        for bi, r in enumerate(m['rects'][1:], 1):
            role = r['role']
            if role == 'N':
                gap = abs((r['y'] - r['h'] / 2) - (t['y'] + t['h'] / 2))
                ext = max((t['x'] - t['w'] / 2) - (r['x'] - r['w'] / 2), (r['x'] + r['w'] / 2) - (t['x'] + t['w'] / 2))
            elif role == 'S':
                gap = abs((r['y'] + r['h'] / 2) - (t['y'] - t['h'] / 2))
                ext = max((t['x'] - t['w'] / 2) - (r['x'] - r['w'] / 2), (r['x'] + r['w'] / 2) - (t['x'] + t['w'] / 2))
            elif role == 'E':
                gap = abs((r['x'] - r['w'] / 2) - (t['x'] + t['w'] / 2))
                ext = max((t['y'] - t['h'] / 2) - (r['y'] - r['h'] / 2), (r['y'] + r['h'] / 2) - (t['y'] + t['h'] / 2))
            else:
                gap = abs((r['x'] + r['w'] / 2) - (t['x'] - t['w'] / 2))
                ext = max((t['y'] - t['h'] / 2) - (r['y'] - r['h'] / 2), (r['y'] + r['h'] / 2) - (t['y'] + t['h'] / 2))
            va = max(va, gap, ext)
            sides.setdefault(role, []).append(bi)
        for role, lst in sides.items():
            # original order along the side, and no overlap
            key = (lambda b: m0['rects'][b]['x']) if role in 'NS' else (lambda b: m0['rects'][b]['y'])
            lst = sorted(lst, key=key)
            for a, b in zip(lst, lst[1:]):
                ra, rb = m['rects'][a], m['rects'][b]
                if role in 'NS':
                    va = max(va, (ra['x'] + ra['w'] / 2) - (rb['x'] - rb['w'] / 2))
                else:
                    va = max(va, (ra['y'] + ra['h'] / 2) - (rb['y'] - rb['h'] / 2))
    st['branches-attached'] = status(va)
    vo = -1.0
    for a, b in itertools.combinations(range(len(cfg)), 2):
        for ra in cfg[a]['rects']:
            for rb in cfg[b]['rects']:
                ox = (ra['w'] + rb['w']) / 2 - abs(ra['x'] - rb['x'])
                oy = (ra['h'] + rb['h']) / 2 - abs(ra['y'] - rb['y'])
                vo = max(vo, min(ox, oy))
    st['no-overlap'] = OK if vo <= 1e-7 else BAD if vo >= 0.19 else AMB
    vh = 0.0
    for m, m0 in zip(cfg, base):
        if m['kind'] in ('hard', 'fixed'):
            t, t0 = m['rects'][0], m0['rects'][0]
            for r, r0 in zip(m['rects'], m0['rects']):
                vh = max(vh, abs(r['w'] - r0['w']), abs(r['h'] - r0['h']),
                         abs((r['x'] - t['x']) - (r0['x'] - t0['x'])), abs((r['y'] - t['y']) - (r0['y'] - t0['y'])))
            if m['kind'] == 'fixed':
                vh = max(vh, abs(t['x'] - t0['x']), abs(t['y'] - t0['y']))
    st['hard-fixed'] = status(vh)
    return st


def evaluate_system(model, cfg, index, u=1.0):
    """assign the configuration (given in slot units; the model is in units of u) to the model's variables and evaluate every
    legality equation and the bounds of every variable (the bounds are part of the system handed to the solver)"""
    unmet = []
    for mi, mm in enumerate(model.M):
        for j, k in enumerate(index[mi]):
            r = cfg[mi]['rects'][k]
            for var, val, nm in ((mm.x[j], r['x'] * u, 'x'), (mm.y[j], r['y'] * u, 'y'), (mm.w[j], r['w'] * u, 'w'), (mm.h[j], r['h'] * u, 'h')):
                var.assign(val)
                lb, ub = var.data.get('lb'), var.data.get('ub')
                slack = 1e-6 * max(abs(val), abs(lb or 0.0), abs(ub or 0.0))
                if (lb is not None and val < lb - slack) or (ub is not None and val > ub + slack):
                    unmet.append(('VarBounds', f'{nm}[{mi},{j}] in [{lb}, {ub}]'))
    for group in ('Area', 'Inter', 'Fix'):
        for e in model.gekko.constraints.get(group, []):
            if not e.is_equation_met():
                unmet.append((group, e.name))
    # the per-module equations, through the module's own accessor (the one ModelWrapper.build_model feeds the solver from;
    # every rectangle is enabled in a freshly built model, so the accessor has no side effect); 'Rid' is bookkeeping
    for mm in model.M:
        assert all(mm.enable), 'a freshly built model has all rectangles enabled'
        for (group, e) in mm.get_constraints(model.gekko):
            if group != 'Rid' and not e.is_equation_met():
                unmet.append((group, e.name))
    return unmet


def check_case(case, res):
    if case.get('elongated'):
        check_elongated(case, res)
        return
    if case.get('scaled'):
        check_scaled_input(case, res)
        return
    reset_frame_state()
    attrs = dict(shapes=[s for s, _ in case['mods']], ratio=case['ratio'])
    if case.get('unit'):
        attrs['unit'] = case['unit']
    if case.get('assign'):
        attrs['assign'] = True
    try:
        model, layout, index = build_model(case)
    except Exception as e:  # noqa
        res.violation('model-raises', case, attrs, 'a model', f'{type(e).__name__}: {e}')
        res.case('raised')
        return
    if any(k is None for idx in index for k in idx):
        res.violation('model-rectangles', case, attrs, 'the model starts from the input rectangles', 'some rectangle was altered')
        res.case('altered')
        return
    die = case['die']
    slots = slots_of(die)
    used = [si for _, si in case['mods']]
    kinds = sorted({m['kind'] + ('+branches' if len(m['rects']) > 1 else '') for m in layout})
    only = case.get('only')
    for (ldesc, lcfg) in legal_variants(layout, die, slots, used, float(case['ratio'])):
        cfgs = [(ldesc, lcfg)] + [(ldesc + ' / ' + pdesc, pc) for pdesc, pc in perturbations(lcfg, die)]
        for desc, cfg in cfgs:
            if only is not None and desc != only:
                continue
            st = legality(cfg, layout, die, case['ratio'])
            if AMB in st.values():
                res.counters['ambiguous-configuration'] += 1
                continue
            legal = all(s == OK for s in st.values())
            unmet = evaluate_system(model, cfg, index, float(case.get('unit', 1.0)))
            accepted = not unmet
            bad_clauses = sorted(k for k, s in st.items() if s == BAD)
            if accepted != legal:
                res.violation('accepts-illegal' if accepted else 'rejects-legal', dict(case, only=desc),
                              dict(attrs, kinds=kinds, config=desc.split(' M')[0].split(' / ')[-1], violated=bad_clauses,
                                   groups=sorted({g for g, _ in unmet}), is_input=(desc == 'input')),
                              f'legal={legal} (clauses violated: {bad_clauses})', f'unmet equations: {unmet[:6]}')
            res.case('legal' if legal else 'illegal:' + '+'.join(bad_clauses), nontrivial=(desc != 'input'))


def check_elongated(case, res):
    """two unit squares on a strongly elongated die, overlapping in a 0.2 x 0.2 corner: beyond the documented smoothing
    tolerance (0.01 * short side / number of modules), so the system must reject it; abutting squares must be accepted"""
    import tools.legalfloor.legalfloor as lf
    from frame.netlist.netlist import Netlist
    reset_frame_state()
    W, H = case['die']
    attrs = dict(shapes=['unit', 'unit'], ratio=2.0, elongated=True)
    n = Netlist({'Modules': {'M0': {'area': 1, 'rectangles': [[5.0, 5.0, 1.0, 1.0]]}, 'M1': {'area': 1, 'rectangles': [[7.0, 5.0, 1.0, 1.0]]}},
                 'Nets': [['M0', 'M1']]})
    try:
        with quiet():
            ml, al, xl, yl, wl, hl, hyper, og = lf.netlist_to_utils(n)
            model = lf.Model(ml, al, xl, yl, wl, hl, float(W), float(H), hyper, 2.0, og, 0.9, 0.3, 1.0, None)
            model.time.assign(1000)
    except Exception as e:  # noqa
        res.violation('model-raises', case, attrs, 'a model', f'{type(e).__name__}: {e}')
        return
    base = [dict(kind='soft', area=1.0, rects=[dict(role='T', x=5.0, y=5.0, w=1.0, h=1.0)]),
            dict(kind='soft', area=1.0, rects=[dict(role='T', x=7.0, y=5.0, w=1.0, h=1.0)])]
    index = [[0], [0]]
    for desc, (x1, y1) in (('apart', (7.0, 5.0)), ('abutting', (6.0, 5.0)), ('corner-touch', (6.0, 6.0)),
                           ('corner-overlap-0.2', (5.8, 5.8)), ('side-overlap-0.3', (5.7, 5.0))):
        cfg = copy.deepcopy(base)
        cfg[1]['rects'][0]['x'], cfg[1]['rects'][0]['y'] = x1, y1
        st = legality(cfg, base, case['die'], 2.0)
        if AMB in st.values():
            res.counters['ambiguous-configuration'] += 1
            continue
        legal = all(v == OK for v in st.values())
        unmet = evaluate_system(model, cfg, index)
        if (not unmet) != legal:
            res.violation('accepts-illegal' if not unmet else 'rejects-legal', dict(case, only=desc),
                          dict(attrs, config=desc, violated=sorted(k for k, v in st.items() if v == BAD), groups=sorted({g for g, _ in unmet})),
                          f'legal={legal}', f'unmet equations: {unmet[:4]}')
        res.case('legal' if legal else 'illegal:no-overlap', nontrivial=True)


def check_scaled_input(case, res):
    """the same netlists written in other units (all lengths x s, s = 100000.3): 'the input configuration of an already
    legal floorplan satisfies the system' - only the input is judged (it is legal by construction)"""
    import tools.legalfloor.legalfloor as lf
    from frame.netlist.netlist import Netlist
    reset_frame_state()
    s = case['scaled']
    die = [case['die'][0] * s, case['die'][1] * s]
    slots = slots_of(case['die'])
    attrs = dict(shapes=[m for m, _ in case['mods']], ratio=case['ratio'], scaled=s, config='input')
    mods, layout = {}, []
    for i, (shape, si) in enumerate(case['mods']):
        kind, rects = place(shape, slots[si])
        rects = [dict(role=r['role'], x=float(r['x']) * s, y=float(r['y']) * s, w=float(r['w']) * s, h=float(r['h']) * s) for r in rects]
        node = {'rectangles': [[r['x'], r['y'], r['w'], r['h']] for r in rects]}
        if kind == 'soft':
            node['area'] = sum(r['w'] * r['h'] for r in rects)
        elif kind == 'hard':
            node['hard'] = True
        else:
            node['fixed'] = True
        mods[f'M{i}'] = node
        layout.append(dict(kind=kind, rects=rects))
    names = list(mods)
    try:
        n = Netlist({'Modules': mods, 'Nets': [names] if len(names) >= 2 else []})
        with quiet():
            ml, al, xl, yl, wl, hl, hyper, og = lf.netlist_to_utils(n)
            model = lf.Model(ml, al, xl, yl, wl, hl, float(die[0]), float(die[1]), hyper, float(case['ratio']), og, 0.9, 0.3, 1.0, None)
            model.time.assign(1000)
    except Exception as e:  # noqa
        res.violation('model-raises', case, attrs, 'a model', f'{type(e).__name__}: {e}')
        res.case('raised')
        return
    index = []
    for mi, mm in enumerate(model.M):
        idx = []
        for j in range(len(mm.x)):
            key = (mm.x[j].evaluate(), mm.y[j].evaluate(), mm.w[j].evaluate(), mm.h[j].evaluate())
            hit = [k for k, r in enumerate(layout[mi]['rects']) if all(abs(r[c] - key[q]) < 1e-9 * s for q, c in enumerate('xywh'))]
            idx.append(hit[0] if hit else None)
        index.append(idx)
    if any(k is None for idx in index for k in idx):
        res.violation('model-rectangles', case, attrs, 'the model starts from the input rectangles', 'some rectangle was altered')
        res.case('altered')
        return
    unmet = evaluate_system(model, layout, index)
    if unmet:
        res.violation('rejects-legal', case, dict(attrs, groups=sorted({g for g, _ in unmet})), 'legal=True (the input floorplan)',
                      f'unmet equations: {unmet[:4]}')
    res.case('legal', nontrivial=True)


def netlists(tier):
    out = []
    all_shapes = list(SHAPES)
    for s in all_shapes:
        out.append([(s, 0)])
        out.append([(s, 3)])
    two = Q9 if tier == 'quick' else all_shapes
    for a, b in itertools.product(two, repeat=2):
        out.append([(a, 0), (b, 1)])
        if a < b:
            out.append([(a, 2), (b, 3)])
    three = Q5 if tier == 'quick' else T8
    for a, b, c in itertools.product(three, repeat=3):
        if a <= c:
            out.append([(a, 0), (b, 1), (c, 2)])
    return out


def shards(tier):
    nl = netlists(tier)
    out = []
    step = 3
    for lo in range(0, len(nl), step):
        out.append(dict(lo=lo, hi=min(len(nl), lo + step)))
    out.append(dict(elongated=True))
    for lo in range(0, len(SHAPES), 3):
        out.append(dict(scaled=True, lo=lo, hi=lo + 3))
    # the complete configuration menu on designs written in other units (mm / um designs in metres, database units) and on
    # netlists whose rectangles were assigned through the API
    for lo in range(0, len(SHAPES), 2):
        out.append(dict(units=True, lo=lo, hi=lo + 2))
    return out


def run_shard(shard, tier, res):
    if shard.get('elongated'):
        for die in ([100, 10], [10, 100], [40, 12]):
            check_case(dict(elongated=True, die=die), res)
        return
    if shard.get('scaled'):
        shp = list(SHAPES)[shard['lo']:shard['hi']]
        for sh in shp:
            wide = sh.endswith('_int')
            check_case(dict(scaled=100000.3, mods=[[sh, 0]], die=[10, 8] if wide else [8, 8], ratio=2.0), res)
            check_case(dict(scaled=100000.3, mods=[[sh, 3]], die=[10, 8] if wide else [8, 8], ratio=2.0), res)
            for other in ('softN', 'hard1'):
                check_case(dict(scaled=100000.3, mods=[[sh, 0], [other, 1]], die=[10, 8] if wide else [8, 8], ratio=2.0), res)
        return
    if shard.get('units'):
        for sh in list(SHAPES)[shard['lo']:shard['hi']]:
            die = [10, 8] if sh.endswith('_int') else [8, 8]
            for unit in UNITS:
                check_case(dict(mods=[(sh, 0)], die=die, ratio=2.0, unit=unit), res)
                if tier == 'thorough' or sh in Q5:
                    check_case(dict(mods=[(sh, 0), ('softN', 1)], die=die, ratio=2.0, unit=unit), res)
            check_case(dict(mods=[(sh, 3)], die=die, ratio=2.0, assign=True), res)
            check_case(dict(mods=[(sh, 0), ('hardE', 1)], die=die, ratio=2.0, assign=True), res)
        return
    nl = netlists(tier)[shard['lo']:shard['hi']]
    for mods in nl:
        needs_wide = any(s.endswith('_int') for s, _ in mods)
        dies = [[10, 8]] if needs_wide else [[8, 8]]
        if tier == 'thorough' and not needs_wide:
            dies.append([9.5, 8.5])
        # (quick: both limits for the one-module netlists - models with different limits follow each other in one process)
        ratios = [2.0, 3.0] if (tier != 'quick' or len(mods) == 1) else [2.0]
        for die in dies:
            for ratio in ratios:
                check_case(dict(mods=[list(m) for m in mods], die=die, ratio=ratio), res)
    res.samples.append(dict(mods=[list(m) for m in nl[-1]], die=[8, 8], ratio=2.0))


def replay(case):
    from mc.engine import ShardResult
    res = ShardResult()
    case = dict(case)
    if not case.get('elongated'):
        case['mods'] = [tuple(m) for m in case['mods']]
    check_case(case, res)
    return res.violations
