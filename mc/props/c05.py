"""
C05 - Loaded netlist matches its definition; ill-formed designs are rejected.

Enumerated: the C04 documents (given as trees and as YAML text) and, for every base document, every
(defect class x injection site).  Oracle: every derived quantity recomputed from the document; an injected
defect must make the loader raise.
"""
from __future__ import annotations

import copy
import io
import itertools

from mc import netdocs as nd
from mc.common import reset_frame_state, replay_via

ID = 'C05'
LEVEL = 'fault_enumeration'
PRELOAD = ['frame.geometry.geometry', 'frame.netlist.netlist', 'frame.die.die', 'frame.allocation.allocation', 'ruamel.yaml', 'mc.common', 'mc.netdocs']
RULE = ("well-formed documents: 1- and 2-module tuples over 40 module variants x net sets (quick), 3-module tuples over a sub-alphabet; each loaded "
        "from the tree and from YAML text and compared with the definition-level model. Fault enumeration: for every base document every site of every "
        "defect class (unknown module in a net at each position, weight 0/-1, area 0/-2 scalar and per region, soft without area, hard with area, hard "
        "without rectangles, hard with overlapping rectangles, unknown attribute, invalid module name, one-pin net [A] and [A, w], rectangle width/height "
        "0 or negative); 1-module documents and 2-module documents with one net also in two other units (x 1e-4, x 100000.3) with the geometric defect classes. Non-trivial = fault-injected documents + well-formed documents with rectangles or nets; distinct by construction.")
ASSUMPTIONS = ["derived numbers compared with relative 1e-9", "wire length is only defined (and compared) when every net member has a centre"]
BOUNDS = {'quick': 'k<=2 module tuples complete (all net sets for pairs over the 9-variant sub-alphabet, reduced net sets otherwise); faults on all 1-module documents and on 2-module documents with one net', 'thorough': 'k=3 over 14 variants; faults on 3-module documents too'}
TECHNIQUE = "exhaustive fault enumeration: every (defect class x site) injected into every base document, plus exhaustive sweep of well-formed documents against a definition-level reference"

from mc.props.c04 import tuples_for, nets_for, SUB9   # the same document space  # noqa: E402


def shards(tier):
    tl = tuples_for(tier)
    step = 12 if tier == 'quick' else 10
    return [dict(lo=lo, hi=min(len(tl), lo + step)) for lo in range(0, len(tl), step)]


def to_text(doc):
    from ruamel.yaml import YAML
    y = YAML()
    y.default_flow_style = None
    s = io.StringIO()
    y.dump(doc, s)
    return s.getvalue()


def check_loaded(case, res, doc, n, via, attrs):
    exp = nd.doc_model(doc)
    got = nd.loaded_model(n)
    for (field, e, g) in nd.compare_models(exp, got):
        res.violation('def:' + field, case, dict(attrs, via=via, field=field), e, g)
    # netlist-level derived quantities
    if n.num_modules != len(exp['order']) or n.num_edges != len(exp['nets']):
        res.violation('def:counts', case, dict(attrs, via=via), (len(exp['order']), len(exp['nets'])), (n.num_modules, n.num_edges))
    all_rects = [r for nm in exp['order'] for r in got['modules'][nm]['rects']]
    api = [dict(cx=r.center.x, cy=r.center.y, w=r.shape.w, h=r.shape.h, region=r.region, fixed=bool(r.fixed), hard=bool(r.hard))
           for r in n.rectangles]
    key = lambda r: (r['cx'], r['cy'], r['w'], r['h'], r['region'], r['fixed'], r['hard'])  # noqa
    # the list of all rectangles: the rectangles of all modules, each once (order is not part of the statement:
    # recognition may move a trunk first inside a module after the netlist-level list was built)
    if sorted(map(key, api)) != sorted(map(key, all_rects)) or n.num_rectangles != len(all_rects) or \
            sorted(id(r) for r in n.rectangles) != sorted(id(r) for m in n.modules for r in m.rectangles):
        res.violation('def:rectangles-list', case, dict(attrs, via=via), all_rects, api)
    fx = [dict(cx=r.center.x, cy=r.center.y, w=r.shape.w, h=r.shape.h) for r in n.fixed_rectangles()]
    efx = [dict(cx=r['cx'], cy=r['cy'], w=r['w'], h=r['h']) for nm in exp['order'] for r in got['modules'][nm]['rects']
           if exp['modules'][nm]['fixed']]
    fkey = lambda r: (r['cx'], r['cy'], r['w'], r['h'])  # noqa
    if sorted(map(fkey, fx)) != sorted(map(fkey, efx)):
        res.violation('def:fixed-rectangles', case, dict(attrs, via=via), efx, fx)
    for nm in exp['order']:
        m = n.get_module(nm)
        for reg, a in exp['modules'][nm]['area_regions'].items():
            if not nd.feq(m.area(reg), a):
                res.violation('def:area-region', case, dict(attrs, via=via), (nm, reg, a), m.area(reg))
        if m.area('nosuchregion') != 0:
            res.violation('def:area-region', case, dict(attrs, via=via), 0, m.area('nosuchregion'))
        if exp['modules'][nm]['rects'] and not nd.feq(m.area_rectangles, sum(r['w'] * r['h'] for r in exp['modules'][nm]['rects'])):
            res.violation('def:area-rectangles', case, dict(attrs, via=via), nm, m.area_rectangles)
    wl = nd.wire_length(exp)
    if wl is not None:
        try:
            g = n.wire_length
            if not nd.feq(g, wl, 1e-9):
                res.violation('def:wire-length', case, dict(attrs, via=via), wl, g)
        except Exception as e:  # noqa
            res.violation('def:wire-length', case, dict(attrs, via=via), wl, f'{type(e).__name__}: {e}')


def faults(doc):
    """yield (class, site, faulty document)"""
    names = list(doc['Modules'])
    for ni, net in enumerate(doc.get('Nets', [])):
        nm = len(net) - (1 if isinstance(net[-1], (int, float)) else 0)
        for pos in range(nm):
            d = copy.deepcopy(doc)
            d['Nets'][ni][pos] = 'Ghost'
            yield 'unknown-module-in-net', f'net{ni}.{pos}', d
        for w in (0, -1, 0.0):
            d = copy.deepcopy(doc)
            e = d['Nets'][ni][:nm] + [w]
            d['Nets'][ni] = e
            yield 'non-positive-weight', f'net{ni}={w}', d
        # one-pin nets
        d = copy.deepcopy(doc)
        d['Nets'][ni] = [net[0]]
        yield 'one-pin-net', f'net{ni}=[A]', d
        for w in (2, 0.5, 1):
            d = copy.deepcopy(doc)
            d['Nets'][ni] = [net[0], w]
            yield 'one-pin-net', f'net{ni}=[A,{w}]', d
    if names:
        for w in (None, 2):
            d = copy.deepcopy(doc)
            d.setdefault('Nets', []).append([names[0]] if w is None else [names[0], w])
            yield 'one-pin-net', f'extra=[A{"" if w is None else ",2"}]', d
        d = copy.deepcopy(doc)
        d.setdefault('Nets', []).append([names[0], 'Ghost'])
        yield 'unknown-module-in-net', 'extra', d
    for name in names:
        node = doc['Modules'][name]
        soft = not (node.get('hard') or node.get('fixed') or node.get('terminal'))
        if soft:
            for bad in (0, -2, 0.0):
                d = copy.deepcopy(doc)
                if isinstance(node['area'], dict):
                    for reg in node['area']:
                        d2 = copy.deepcopy(doc)
                        d2['Modules'][name]['area'][reg] = bad
                        yield 'non-positive-area', f'{name}.area.{reg}={bad}', d2
                else:
                    d['Modules'][name]['area'] = bad
                    yield 'non-positive-area', f'{name}.area={bad}', d
            d = copy.deepcopy(doc)
            del d['Modules'][name]['area']
            yield 'soft-without-area', name, d
        elif not node.get('terminal'):
            d = copy.deepcopy(doc)
            d['Modules'][name]['area'] = 3
            yield 'hard-with-area', name, d
            d = copy.deepcopy(doc)
            del d['Modules'][name]['rectangles']
            yield 'hard-without-rectangles', name, d
            d = copy.deepcopy(doc)
            d['Modules'][name]['rectangles'] = []
            yield 'hard-without-rectangles', name + '[]', d
            rl = node['rectangles']
            first = rl if isinstance(rl[0], (int, float)) else rl[0]
            d = copy.deepcopy(doc)
            d['Modules'][name]['rectangles'] = [list(first[:4]), [first[0] + first[2] / 4, first[1], first[2], first[3]]]
            yield 'hard-overlapping-rectangles', name, d
            d = copy.deepcopy(doc)
            d['Modules'][name]['rectangles'] = [list(first[:4]), list(first[:4])]
            yield 'hard-overlapping-rectangles', name + '.dup', d
            # a valid orthogon (trunk + two branches on its north side) whose two branches overlap EACH OTHER
            x, y, w, h = first[:4]
            d = copy.deepcopy(doc)
            d['Modules'][name]['rectangles'] = [[x, y, w, h], [x - w / 8, y + h / 2 + h / 4, w / 2, h / 2],
                                                [x + w / 8, y + h / 2 + h / 4, w / 2, h / 2]]
            yield 'hard-overlapping-rectangles', name + '.branches', d
            d = copy.deepcopy(doc)
            d['Modules'][name]['rectangles'] = [[x, y, w, h], [x + w / 2 + w / 4, y - h / 8, w / 2, h / 2],
                                                [x + w / 2 + w / 4, y + h / 8, w / 2, h / 2]]
            yield 'hard-overlapping-rectangles', name + '.branches-east', d
        d = copy.deepcopy(doc)
        d['Modules'][name]['colour'] = 1
        yield 'unknown-attribute', name, d
        for badname in ('1abc', 'a-b', 'a b', '', name + '\n', '\n' + name, name + ' ', name + '\t', name + '.x'):
            d = copy.deepcopy(doc)
            d['Modules'] = {(badname if k == name else k): v for k, v in d['Modules'].items()}
            d['Nets'] = [[(badname if x == name else x) for x in e] for e in d.get('Nets', [])]
            yield 'invalid-name', f'{name}->{badname!r}', d
        if 'rectangles' in node:
            rl = node['rectangles']
            single = isinstance(rl[0], (int, float))
            nrect = 1 if single else len(rl)
            for ri in range(nrect):
                for comp in (2, 3):
                    for bad in (0, -1):
                        d = copy.deepcopy(doc)
                        if single:
                            d['Modules'][name]['rectangles'][comp] = bad
                        else:
                            d['Modules'][name]['rectangles'][ri][comp] = bad
                        yield 'non-positive-rectangle-size', f'{name}.rect{ri}[{comp}]={bad}', d
                # both sizes non-positive at once (the product of two negative sizes is a positive area)
                cur = rl if single else rl[ri]
                for tag, (bw, bh) in (('neg', (-cur[2], -cur[3])), ('neg2', (-2, -4)), ('zero', (0, 0)), ('mixed', (-cur[2], 0))):
                    d = copy.deepcopy(doc)
                    tgt = d['Modules'][name]['rectangles'] if single else d['Modules'][name]['rectangles'][ri]
                    tgt[2], tgt[3] = bw, bh
                    yield 'non-positive-rectangle-size', f'{name}.rect{ri}[both]={tag}', d


# the same documents in other units: x 1e-4 (a design written in metres instead of 0.1 mm) and x 100000.3 (database units,
# decimal): tolerances that are not proportional to the scale of the design accept overlaps / reject abutting rectangles
SCALES = {'small': 1e-4, 'big': 100000.3, 'tiny': 1e-7}
GEOMETRIC = ('hard-overlapping-rectangles', 'non-positive-rectangle-size')


def scale_doc(doc, s):
    d = copy.deepcopy(doc)
    for node in d['Modules'].values():
        if 'area' in node:
            node['area'] = {k: v * s * s for k, v in node['area'].items()} if isinstance(node['area'], dict) else node['area'] * s * s
        if 'center' in node:
            node['center'] = [node['center'][0] * s, node['center'][1] * s]
        if 'rectangles' in node:
            rl = node['rectangles']
            if rl and isinstance(rl[0], (int, float)):
                node['rectangles'] = [v * s for v in rl[:4]] + list(rl[4:])
            else:
                node['rectangles'] = [[v * s for v in r[:4]] + list(r[4:]) for r in rl]
    return d


def check_case(case, res):
    from frame.netlist.netlist import Netlist
    vt = tuple(case['mods'])
    nets = [(tuple(m), w) for m, w in case['nets']]
    doc = nd.build_doc(vt, nets)
    if case.get('scale'):
        doc = scale_doc(doc, SCALES[case['scale']])
    names = [nd.VARIANTS[i][0] for i in vt]
    attrs = dict(variants=names, nnets=len(nets))
    if case.get('scale'):
        attrs['scale'] = case['scale']
    if 'fault' in case:
        cls, site = case['fault']
        hit = [d for (c, s, d) in faults(doc) if c == cls and s == site]
        assert hit, f'no such fault site {case["fault"]}'
        # (both carriers for the one-module documents and for the documents in other units; the tree carrier alone for
        #  the two- and three-module documents: the YAML text of an injected defect differs from the tree only in the
        #  spelling of the injected scalar, which the one-module documents already cover)
        for via in (('tree', 'text') if (len(vt) == 1 or case.get('scale')) else ('tree',)):
            reset_frame_state()
            try:
                Netlist(copy.deepcopy(hit[0]) if via == 'tree' else to_text(hit[0]))
                res.violation('accepts-ill-formed', case, dict(attrs, defect=cls, via=via), 'rejection', 'loaded')
            except Exception:  # noqa
                pass
        res.case('fault:' + cls)
        return
    tree = copy.deepcopy(doc)
    for via in ('tree', 'text', 'tree-again', 'text-alias'):
        reset_frame_state()
        src = doc
        if via == 'text-alias':
            # a document in which the first net is written once and referred to a second time through a YAML alias
            # (the parser then sees the SAME list object twice); it means the document with that net listed twice
            if not doc.get('Nets'):
                continue
            shared = copy.deepcopy(doc)
            shared['Nets'].append(shared['Nets'][0])
            text = to_text(shared)
            assert '*id' in text, text
            src = copy.deepcopy(doc)
            src['Nets'].append(copy.deepcopy(src['Nets'][0]))
        try:
            # 'tree-again': the caller's tree is loaded a second time; loading must not have consumed or altered it
            n = Netlist(tree if via.startswith('tree') else text if via == 'text-alias' else to_text(doc))
        except Exception as e:  # noqa
            res.violation('rejects-well-formed', case, dict(attrs, via=via), 'loads', f'{type(e).__name__}: {e}')
            continue
        if via.startswith('tree') and tree != doc:
            res.violation('input-altered', case, dict(attrs, via=via), doc, tree)
            tree = copy.deepcopy(doc)
        check_loaded(case, res, src, n, via, attrs)
    res.case('well-formed', nontrivial=bool(nets) or any('rectangles' in nd.VARIANTS[i][1] for i in vt))


def run_shard(shard, tier, res):
    tl = tuples_for(tier)[shard['lo']:shard['hi']]
    for vt in tl:
        k = len(vt)
        sub = {nd.VIDX[x] for x in SUB9}
        full = (k == 1) or tier == 'thorough' or (k == 2 and vt[0] in sub and vt[1] in sub)
        for j, nets in enumerate(nets_for(k, tier, full)):
            case = dict(mods=list(vt), nets=[[list(m), w] for m, w in nets])
            check_case(case, res)
            inject = (k == 1) or (k == 2 and j in (1, 2)) or (k == 3 and tier == 'thorough' and j == 1)
            if inject:
                doc = nd.build_doc(vt, nets)
                for (cls, site, _) in faults(doc):
                    check_case(dict(case, fault=[cls, site]), res)
            if (k == 1 and j == 0) or (k == 2 and full and j == 1):
                for sc in SCALES:
                    check_case(dict(case, scale=sc), res)
                    for (cls, site, _) in faults(nd.build_doc(vt, nets)):
                        if cls in GEOMETRIC:
                            check_case(dict(case, scale=sc, fault=[cls, site]), res)
    res.samples.append(dict(mods=list(tl[-1]), nets=[], fault=['unknown-attribute', 'M0']))


replay = replay_via(check_case)
