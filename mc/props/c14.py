"""
C14 - Spectral placement keeps every module's disc inside the die.

The only nondeterminism of the placement is random.uniform in the start vector.  The harness owns that seam
(tools.spectral.spectral_algorithm.random is replaced by a menu object) and enumerates EVERY sequence of answers
from a finite menu (2 answers per draw in quick, 3 in thorough), for every netlist / die / trial-count configuration.
Oracle: disc of each movable module inside the die; fixed modules untouched; hard modules moved rigidly; areas and
nets unchanged.
"""
from __future__ import annotations

import itertools
import math

from mc.common import reset_frame_state, replay_via

ID = 'C14'
LEVEL = 'model_checking'
PRELOAD = ['frame.geometry.geometry', 'frame.netlist.netlist', 'frame.die.die', 'frame.allocation.allocation', 'ruamel.yaml', 'mc.common', 'tools.spectral.spectral']
RULE = ("environment-answer enumeration: every sequence of answers of the random source (menu {0.13, 0.88}, 3 answers {0.13, 0.52, 0.88} in thorough, each "
        "shifted by a distinct per-draw offset) for the 2*m draws of a trial with m movable modules x netlist topologies {path, cycle, star, clique, 3-pin "
        "hyperedge + edges} on 4-5 modules x masses {equal, unequal} x {no fixed, one fixed, one small / one large hard two-rectangle module, fixed terminals on the die edges} x dies {6x4, 4x4, 10x3, 2.4e9x1.6e9} x trials {1, 2}; a soft module carrying a rectangle much smaller than its area; 0 trials from given (also aligned, slanted-regular and 2x2-grid) centres with equal and unequal masses; modules tied only to one fixed pad on the die edge. "
        "states = distinct (configuration, answer sequence) executions; transitions = draws answered.")
ASSUMPTIONS = ["the menu fixes on which side and in which order modules start, which determines the eigenvector the power iteration converges to; "
               "two draws never coincide (probability-0 events for a real stream)",
               "disc containment compared with 1e-9*die size"]
BOUNDS = {'quick': '2 answers per draw, m=4 movable modules (256 sequences per configuration), 14 configurations; second trial on a reduced menu',
          'thorough': '3 answers per draw for m=4 (6561 sequences) on 10 configurations + 2 answers for m=5 (1024) on 30 configurations'}
MC_NOTE = ("the explored space is the tree of random-source answers of the real spectral_layout; every leaf is a complete run of the real code whose result is "
           "checked (traces_validated_against_impl = complete answer sequences executed)")
TECHNIQUE = "exhaustive enumeration of environment (random source) answer sequences driving the real placement code, invariant checked on every complete run"


class Menu:
    """stand-in for the random module inside tools.spectral.spectral_algorithm"""

    def __init__(self, fractions):
        self.fr = list(fractions)
        self.k = 0

    # irregular per-draw offsets: no two draws coincide and no start vector is exactly symmetric, an arithmetic
    # progression or proportional to another one (probability-0 events for a real random stream, which would make
    # the harness - not FRAME - produce degenerate eigen-problems)
    OFFS = [0.0, 0.00713, 0.00229, 0.01137, 0.00471, 0.00893, 0.01319, 0.00173, 0.00597, 0.01013, 0.00367,
            0.00811, 0.01229, 0.00059, 0.00947, 0.00283, 0.01171, 0.00631, 0.00419, 0.01087]

    def uniform(self, a, b):
        f = self.fr[self.k % len(self.fr)] + self.OFFS[self.k % len(self.OFFS)]
        self.k += 1
        return a + f * (b - a)


TOPOLOGIES = {
    'path': lambda n: [[i, i + 1] for i in range(n - 1)],
    'cycle': lambda n: [[i, (i + 1) % n] for i in range(n)],
    'star': lambda n: [[0, i] for i in range(1, n)],
    'clique': lambda n: [[i, j] for i in range(n) for j in range(i + 1, n)],
    'hyper': lambda n: [[0, 1, 2]] + [[i, i + 1] for i in range(2, n - 1)] + [[n - 1, 0]],
}


def build(case):
    from tools.spectral.spectral import Spectral
    W, H = case['die']
    n = case['n']
    masses = [1.0] * n if case['masses'] == 'equal' else [0.5 + 0.7 * i for i in range(n)]
    scale = W * H / 24.0 * case.get('scale', 1.0)
    mods = {}
    for i in range(n):
        mods[f'M{i}'] = {'area': masses[i] * scale}
        if case['trials'] == 0:
            # 'use initial coordinates' mode: no random start, every module has a centre
            cx, cy = W * (0.2 + 0.6 * ((i * 2) % n) / max(1, n - 1)), H * (0.25 + 0.5 * ((i * 3) % n) / max(1, n - 1))
            init = case.get('init', 'generic')
            # degenerate starts: all given centres in a row, in a column, or at the same point
            if init == 'diag':
                # regular, non-aligned starts: centres in arithmetic progression along a slanted line
                cx, cy = W * (0.1 + 0.1 * i), H * (0.2 + 0.05 * i)
            if init == 'grid2':
                cx, cy = W * (0.3 + 0.4 * (i % 2)), H * (0.3 + 0.4 * ((i // 2) % 2))
            if init in ('row', 'same'):
                cy = H / 2
            if init in ('column', 'same'):
                cx = W / 2
            mods[f'M{i}']['center'] = [cx, cy]
    if case.get('softrect'):
        # a soft module that already carries a rectangle covering only a small part of its area (e.g. a trunk from an
        # earlier step): its disc is still the disc of its AREA
        a = mods[f'M{n - 1}']['area']
        side = math.sqrt(a / 16)
        mods[f'M{n - 1}']['rectangles'] = [[W / 2, H / 2, side, side]]
        mods[f'M{n - 1}'].pop('center', None)
    extra = case['extra']
    names = [f'M{i}' for i in range(n)]
    if extra == 'fixed':
        mods['F'] = {'fixed': True, 'rectangles': [[W * 0.75, H * 0.25, W / 10, H / 10]]}
        names.append('F')
    elif extra == 'hard':
        mods['Hd'] = {'hard': True, 'rectangles': [[W * 0.5, H * 0.5, W / 6, H / 12], [W * 0.5, H * 0.5 + H / 12, W / 12, H / 12]]}
        names.append('Hd')
    elif extra == 'bighard':
        # a large L-shaped macro (rectangles of very different areas): it is usually the module that the
        # normalisation pushes against the die border
        mods['Hd'] = {'hard': True, 'rectangles': [[W * 0.5, H * 0.5, W * 0.5, H * 0.5],
                                                   [W * 0.5 - W * 0.2, H * 0.5 + H * 0.25 + H * 0.03, W * 0.1, H * 0.06]]}
        names.append('Hd')
    elif extra == 'fixedpair':
        # a fixed pad whose only net goes to a fixed block (which in turn is connected to movable modules)
        mods['F'] = {'fixed': True, 'rectangles': [[W * 0.75, H * 0.25, W / 10, H / 10]]}
        mods['P'] = {'terminal': True, 'fixed': True, 'center': [W, H * 0.25]}
        names.extend(['F', 'P'])
    elif extra == 'mterm':
        # a movable terminal (no area, no rectangles)
        mods['Tm'] = {'terminal': True, 'center': [W * 0.3, H * 0.3]}
        names.append('Tm')
    elif extra == 'pins':
        # fixed terminals exactly on the left and the bottom edge of the die (coordinate 0)
        mods['P0'] = {'terminal': True, 'fixed': True, 'center': [0, H * 0.4]}
        mods['P1'] = {'terminal': True, 'fixed': True, 'center': [W * 0.6, 0]}
        names.extend(['P0', 'P1'])
    nets = []
    if extra == 'padonly':
        # every module is tied to one fixed pad on the right edge of the die and to nothing else (the netlist is connected
        # through the pad)
        mods['P'] = {'terminal': True, 'fixed': True, 'center': [W, H / 2]}
        return Spectral({'Modules': mods, 'Nets': [[f'M{i}', 'P'] for i in range(n)]})
    for e in TOPOLOGIES[case['topo']](n):
        nets.append([names[i] for i in e] + ([1.5] if len(e) == 3 else []))
    if extra in ('fixed', 'hard', 'bighard', 'mterm'):
        nets.append([names[-1], 'M0'])
        nets.append([names[-1], f'M{n - 1}', 2])
    elif extra == 'fixedpair':
        nets.append(['P', 'F'])
        nets.append(['F', 'M0'])
        nets.append(['F', f'M{n - 1}', 2])
    elif extra == 'pins':
        nets.append(['P0', 'M0'])
        nets.append(['P1', f'M{n - 1}', 2])
    return Spectral({'Modules': mods, 'Nets': nets})


def snapshot(nl):
    mods = []
    for m in nl.modules:
        rects = [(r.center.x, r.center.y, r.shape.w, r.shape.h) for r in m.rectangles]
        mods.append((m.name, m.area(), m.is_fixed, m.is_hard, rects, None if m.center is None else (m.center.x, m.center.y)))
    nets = [(tuple(b.name for b in e.modules), e.weight) for e in nl.edges]
    return mods, nets


def check_case(case, res):
    import tools.spectral.spectral_algorithm as alg
    from frame.geometry.geometry import Shape
    W, H = case['die']
    attrs = dict(topo=case['topo'], extra=case['extra'], trials=case['trials'], masses=case['masses'])
    if case.get('init'):
        attrs['init'] = case['init']
    reset_frame_state()
    nl = build(case)
    before = snapshot(nl)
    # precondition of the statement: every disc fits in the die (a harness bug otherwise)
    assert all(math.sqrt(m.area() / math.pi) < min(W, H) / 2 for m in nl.modules), 'C14 harness: a disc does not fit in the die'
    menu = Menu(case['answers'])
    saved = alg.random
    alg.random = menu
    try:
        nl.spectral_layout(Shape(W, H), case['trials'], False)
        if case.get('again'):
            # a second placement of the SAME netlist object (a second best-of run): the invariants are those of one run
            nl.spectral_layout(Shape(W, H), max(1, case['trials']), False)
    except Exception as e:  # noqa
        res.violation('raises', case, dict(attrs, exc=type(e).__name__), 'a placement', f'{type(e).__name__}: {e}')
        res.case('raised')
        return
    finally:
        alg.random = saved
    res.transitions += menu.k
    res.traces += 1
    tol = 1e-9 * max(W, H)
    after = snapshot(nl)
    if [(a[0], a[2], a[3]) for a in after[0]] != [(b[0], b[2], b[3]) for b in before[0]] or after[1] != before[1] or \
            any(abs(a[1] - b[1]) > 1e-12 * max(1.0, b[1]) for a, b in zip(after[0], before[0])):
        res.violation('areas-nets-changed', case, attrs, 'modules, areas and nets unchanged', 'changed')
    worst = 0.0
    for m, b in zip(nl.modules, before[0]):
        rects = [(r.center.x, r.center.y, r.shape.w, r.shape.h) for r in m.rectangles]
        if m.is_fixed:
            if rects != b[4]:
                res.violation('fixed-moved', case, attrs, b[4], rects)
            ctr = None if m.center is None else (m.center.x, m.center.y)
            # the place of a fixed module is given by its rectangles, and by its centre when it has none (a pin); a centre
            # that is reported must be the old one (the centre attribute of a module with rectangles may be dropped)
            if (not rects and ctr is None) or (ctr is not None and b[5] is not None and
                                                max(abs(ctr[0] - b[5][0]), abs(ctr[1] - b[5][1])) > tol):
                res.violation('fixed-moved', case, dict(attrs, terminal=m.is_terminal), b[5], ctr)
            continue
        if m.is_hard and not m.is_terminal:
            # rigid: same shapes, same pairwise offsets
            if len(rects) != len(b[4]) or any(abs(r[2] - q[2]) > tol or abs(r[3] - q[3]) > tol for r, q in zip(rects, b[4])):
                res.violation('hard-reshaped', case, attrs, b[4], rects)
                continue
            dx = [r[0] - q[0] for r, q in zip(rects, b[4])]
            dy = [r[1] - q[1] for r, q in zip(rects, b[4])]
            if max(dx) - min(dx) > tol or max(dy) - min(dy) > tol:
                res.violation('hard-not-rigid', case, attrs, 'one translation for all rectangles', list(zip(dx, dy)))
            A = sum(r[2] * r[3] for r in rects)
            cx = sum(r[0] * r[2] * r[3] for r in rects) / A
            cy = sum(r[1] * r[2] * r[3] for r in rects) / A
        else:
            if m.center is None:
                res.violation('no-position', case, attrs, 'a centre', None)
                continue
            cx, cy = m.center.x, m.center.y
        if not (math.isfinite(cx) and math.isfinite(cy)):
            res.violation('disc-inside', case, attrs, 'finite position', [cx, cy])
            continue
        rad = math.sqrt(m.area() / math.pi)
        excess = max(rad - cx, cx + rad - W, rad - cy, cy + rad - H)
        worst = max(worst, excess)
        if excess > tol:
            res.violation('disc-inside', case, dict(attrs, module_hard=m.is_hard), f'disc of radius {rad} inside {W}x{H}',
                          dict(centre=[cx, cy], excess=excess))
    from mc.engine import h64
    res.states.add(h64((case['topo'], case['extra'], case['masses'], tuple(case['die']), case['n'], case['trials'],
                        tuple(case['answers']))))
    res.case('placed', nontrivial=True)


def configurations(tier):
    cfgs = []
    if tier == 'quick':
        base = [('path', 'equal', 'none'), ('cycle', 'unequal', 'none'), ('star', 'equal', 'fixed'), ('clique', 'unequal', 'hard'),
                ('hyper', 'equal', 'none'), ('path', 'unequal', 'hard'), ('star', 'unequal', 'none')]
        for i, (t, ms, ex) in enumerate(base):
            cfgs.append(dict(topo=t, masses=ms, extra=ex, die=[[6, 4], [4, 4], [10, 3]][i % 3], n=4, trials=1, menu=2))
        for (t, ms, ex) in base[:3]:
            cfgs.append(dict(topo=t, masses=ms, extra=ex, die=[6, 4], n=4, trials=2, menu=2, reduced=True))
        cfgs.append(dict(topo='cycle', masses='equal', extra='fixed', die=[10, 3], n=5, trials=1, menu=2, reduced5=True))
        cfgs.append(dict(topo='path', masses='unequal', extra='bighard', die=[6, 4], n=4, trials=1, menu=2, reduced5=True))
        cfgs.append(dict(topo='star', masses='equal', extra='bighard', die=[4, 4], n=4, trials=1, menu=2, reduced5=True))
        cfgs.append(dict(topo='cycle', masses='unequal', extra='pins', die=[6, 4], n=4, trials=1, menu=2))
        cfgs.append(dict(topo='path', masses='equal', extra='mterm', die=[6, 4], n=4, trials=1, menu=2, reduced5=True))
        cfgs.append(dict(topo='cycle', masses='equal', extra='fixedpair', die=[6, 4], n=4, trials=2, menu=2, reduced4=True))
        # the same graph and die with other areas (placed after the ones above in the same shard)
        cfgs.append(dict(topo='path', masses='unequal', extra='none', die=[6, 4], n=4, trials=1, menu=2, scale=3.0, reduced4=True))
        # a design in very large units (the convergence tolerance max(die) * n * 1e-10 reaches 1)
        cfgs.append(dict(topo='path', masses='unequal', extra='none', die=[2.4e9, 1.6e9], n=5, trials=1, menu=2, reduced4=True))
        cfgs.append(dict(topo='cycle', masses='equal', extra='hard', die=[2.4e9, 1.6e9], n=4, trials=2, menu=2, reduced4=True))
        # placed twice on the same object: movable hard modules (small and large) and a fixed block
        cfgs.append(dict(topo='clique', masses='unequal', extra='hard', die=[6, 4], n=4, trials=1, menu=2, reduced4=True, again=True))
        cfgs.append(dict(topo='path', masses='unequal', extra='bighard', die=[6, 4], n=4, trials=1, menu=2, reduced4=True, again=True))
        cfgs.append(dict(topo='star', masses='equal', extra='fixed', die=[4, 4], n=4, trials=1, menu=2, reduced4=True, again=True))
        # modules tied only to a fixed pad on the die edge
        cfgs.append(dict(topo='star', masses='equal', extra='padonly', die=[6, 4], n=4, trials=1, menu=2, reduced4=True))
        # the heaviest soft module carries a small rectangle
        cfgs.append(dict(topo='path', masses='unequal', extra='none', die=[6, 4], n=4, trials=1, menu=2, softrect=True))
        cfgs.append(dict(topo='star', masses='unequal', extra='fixed', die=[10, 3], n=4, trials=1, menu=2, softrect=True, reduced4=True))
    else:
        for t in TOPOLOGIES:
            for ms in ('equal', 'unequal'):
                cfgs.append(dict(topo=t, masses=ms, extra='none', die=[6, 4], n=4, trials=1, menu=3))
        for t in TOPOLOGIES:
            for ms in ('equal', 'unequal'):
                for ex in ('none', 'fixed', 'hard'):
                    cfgs.append(dict(topo=t, masses=ms, extra=ex, die=[[6, 4], [4, 4], [10, 3]][len(cfgs) % 3], n=5, trials=1, menu=2))
        for t in TOPOLOGIES:
            cfgs.append(dict(topo=t, masses='unequal', extra='hard', die=[4, 4], n=4, trials=2, menu=2, reduced=True))
        for t in TOPOLOGIES:
            cfgs.append(dict(topo=t, masses='unequal', extra='none', die=[2.4e9, 1.6e9], n=5, trials=1, menu=2))
            cfgs.append(dict(topo=t, masses='unequal', extra='none', die=[6, 4], n=4, trials=1, menu=2, softrect=True))
            cfgs.append(dict(topo=t, masses='unequal', extra='pins', die=[6, 4], n=4, trials=1, menu=2))
    return cfgs


def answer_sequences(cfg):
    fr = [0.13, 0.88] if cfg['menu'] == 2 else [0.13, 0.52, 0.88]
    m = cfg['n'] + (1 if cfg['extra'] in ('hard', 'bighard', 'mterm') else 0)          # movable modules (a hard module is movable)
    draws = 2 * m
    if cfg.get('reduced'):
        # two trials: all answer patterns for the x draws of both trials, y draws alternate
        for xs1 in itertools.product(fr, repeat=min(m, 4)):
            for xs2 in itertools.product(fr, repeat=min(m, 4)):
                x1 = list(xs1) + [fr[0]] * (m - len(xs1))
                x2 = list(xs2) + [fr[1]] * (m - len(xs2))
                y = [fr[i % 2] for i in range(m)]
                yield x1 + y + x2 + list(reversed(y))
        return
    if cfg.get('reduced4'):
        for seq in itertools.product(fr, repeat=4):
            yield list(seq) + [fr[(i + 1) % 2] for i in range(draws - 4)]
        return
    if cfg.get('reduced5') or draws > 8 and cfg['menu'] == 2 and cfg['n'] == 4:
        # 5 movable: enumerate the first 8 draws, alternate the rest
        for seq in itertools.product(fr, repeat=8):
            yield list(seq) + [fr[i % 2] for i in range(draws - 8)]
        return
    for seq in itertools.product(fr, repeat=draws):
        yield list(seq)


def shards(tier):
    parts = 64 if tier == 'quick' else 1440
    return [dict(part=p, parts=parts) for p in range(parts)]


def run_shard(shard, tier, res):
    # one shard = slice `part` of the answer sequences of EVERY configuration, one configuration after the other in
    # the same process: netlists with the same size and die but other areas follow each other (a stale cache shows)
    last = None
    for cfg in configurations(tier):
        for i, seq in enumerate(answer_sequences(cfg)):
            if i % shard['parts'] != shard['part']:
                continue
            case = dict(topo=cfg['topo'], masses=cfg['masses'], extra=cfg['extra'], die=cfg['die'], n=cfg['n'],
                        trials=cfg['trials'], answers=seq)
            if cfg.get('scale'):
                case['scale'] = cfg['scale']
            if cfg.get('softrect'):
                case['softrect'] = True
            if cfg.get('again'):
                case['again'] = True
            check_case(case, res)
            last = case
    if True:
        # nfloorplans = 0 ('-i': start from the given centres): deterministic, no draws (spread over the shards)
        k0 = 0
        for topo in TOPOLOGIES:
            for extra in ('none', 'fixed', 'hard', 'pins'):
                for die in ([6, 4], [10, 3]):
                    k0 += 1
                    if k0 % shard['parts'] != shard['part']:
                        continue
                    check_case(dict(topo=topo, masses='unequal', extra=extra, die=die, n=5, trials=0, answers=[0.5]), res)
                    for init in ('row', 'column', 'same', 'diag', 'grid2'):
                        for ans in ([0.5, 0.2, 0.8, 0.35, 0.65], [0.9, 0.1, 0.6, 0.3, 0.45]):
                            check_case(dict(topo=topo, masses='unequal', extra=extra, die=die, n=5, trials=0, init=init,
                                            answers=ans), res)
                    # equal masses, four and five modules: regular starts are then exactly symmetric
                    for init in ('generic', 'diag', 'grid2'):
                        for nn in (4, 5):
                            check_case(dict(topo=topo, masses='equal', extra=extra, die=die, n=nn, trials=0, init=init,
                                            answers=[0.5, 0.2, 0.8, 0.35, 0.65]), res)
    if last:
        res.samples.append(last)


replay = replay_via(check_case)
