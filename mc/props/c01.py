"""
C01 - Die decomposition is an exact tiling of the die.

Enumerated: every set of <=3 region descriptions (rectangle x kind) over an alphabet of index
rectangles inside, touching and leaving a WxH-cell die, kinds blockage / specialised / fixed
(fixed rectangles arrive through an attached netlist), in exact and decimal coordinate families.
Oracle: exact-rational validity (inside, pairwise interior-disjoint) and exact tiling check of the
reported regions after snapping them to the coordinate grid.
"""
from __future__ import annotations

import itertools
from fractions import Fraction as F

from mc.common import FAMILIES, grid_rects, xinter, xarea, xinside, center_shape, num, reset_frame_state, replay_via

ID = 'C01'
LEVEL = 'exploration'
RULE = ("die of WxH grid cells; region alphabet = all index rectangles inside the die + rectangles crossing or lying beyond the east/north border; "
        "all sets of <=3 regions x kind vectors over {blockage '#', specialised 'dsp'/'bram', fixed (through a netlist)}; families INT, HALF, DEC1, DEC3, DEC7, large dies (1e5, 1e6, 1e7 units with 0.1-step coordinates) a near-miss family with 1e-6 steps (tiny overlaps / gaps / overhangs) and a 1e6-unit die with 4-unit steps; netlists with a movable hard macro assigned through the API; every verdict asked twice "
        "(decimal steps not representable in binary). Non-trivial = valid descriptions with >=1 region (the tiling oracle runs) plus invalid ones that "
        "overlap or leave the die by one grid step (the rejection oracle runs); empty dies are trivial. Distinct by construction.")
ASSUMPTIONS = ["'valid' is decided on the intended decimal coordinates (exact rationals); every invalid description is invalid by at least one grid step",
               "reported coordinates are compared with 1e-9*scale tolerance (exact equality for the pass-through of input regions)",
               "die sizes 2..4 grid steps, <=3 regions (4 on the smallest die in thorough)",
               "the modules of an attached netlist are of the scale of the die (the netlist derives the process-wide tolerance from its smallest module: see C20)"]
BOUNDS = {'quick': 'die 3x3 cells (HALF, DEC1) and 3x2 cells (INT, DEC3, DEC7); near-miss die 4x4 points with <=2 regions; large dies 3x3 / 3x2 cells with <=2 regions; all sets of <=3 regions; 5 kind vectors for triples, all for singles/pairs',
          'thorough': 'all 27 kind vectors for triples; 3x3 and 3x2 for all five families; die 4x4 (HALF, DEC1) with <=3 regions, reduced kinds; 2x2 with <=4 regions'}

# near-miss family: a 1e-6 step next to 1 -> overlaps / gaps / overhangs of 1e-6 (far above the die's own
# tolerance of 1e-11*size, far below a grid step): tiny overlaps must still be rejected, tiny gaps tiled
_NEAR6 = [F(0), F(1), F(1000001, 1000000), F(2), F(3), F(3000001, 1000000)]
# large dies (1e5 .. 1e7 units, ordinary in database units) with 0.1-step coordinates: one ulp of the die area exceeds
# a tolerance that is proportional to a length
_BIG5 = [F(0), F(200001, 10), F(200005, 10), F(100000), F(1200003, 10)]
_BIG6 = [F(0), F(2000001, 10), F(2000003, 10), F(1000000), F(12000003, 10)]
_BIG7 = [F(0), F(30000001, 10), F(30000007, 10), F(100000004, 10), F(120000003, 10)]
# a die of 1e6 integer units with a 4-unit step next to the middle: whole-unit overlaps / gaps of 4 x 4 and 4 x 500000 units.
# A 16-unit^2 corner overlap is 1.6e-11 of the die (below the comparison threshold of this check, so its verdict is not
# prescribed) - but the verdict on ONE description with ONE netlist must not change from one call to the next
_BIGNEAR = [F(0), F(500000), F(500004), F(1000000), F(1200000)]
FAMILIES = dict(FAMILIES, NEAR6=lambda i: _NEAR6[i], BIG5=lambda i: _BIG5[i], BIG6=lambda i: _BIG6[i], BIG7=lambda i: _BIG7[i],
                BIGNEAR=lambda i: _BIGNEAR[i])

KINDS = ['#', 'dsp', 'fixed']
TRIPLE_KINDS_QUICK = [('#', '#', '#'), ('dsp', '#', 'fixed'), ('fixed', 'dsp', '#'), ('fixed', 'fixed', 'dsp'),
                      ('dsp', 'bram', 'dsp')]


def alphabet(W, H, fam=None):
    """index rectangles inside the die, then rectangles leaving it (simplest first)"""
    inside = [r for r in grid_rects(W, H)]
    if fam == 'NEAR6':
        # no rectangle that is itself only 1e-6 thin: the near misses are between rectangles of ordinary size
        thin = lambda r: (r[0], r[2]) in ((1, 2), (4, 5)) or (r[1], r[3]) in ((1, 2), (4, 5))  # noqa
        return [r for r in inside if not thin(r)], [r for r in grid_rects(W + 1, H + 1)
                                                    if (r[2] > W or r[3] > H) and not thin(r) and
                                                    (r[2] - r[0]) * (r[3] - r[1]) <= 2]
    out = []
    for r in grid_rects(W + 1, H + 1):
        if r[2] > W or r[3] > H:
            # keep a representative set: thin ones crossing or beyond each border
            if (r[2] - r[0] <= 2 and r[3] - r[1] <= 1) or (r[2] - r[0] <= 1 and r[3] - r[1] <= 2):
                out.append(r)
    return inside, out


def kind_vectors(k, tier):
    if k < 3:
        return list(itertools.product(KINDS, repeat=k))
    if tier == 'quick':
        return TRIPLE_KINDS_QUICK
    return list(itertools.product(KINDS, repeat=k)) + [('dsp', 'bram', 'dsp')]


def shards(tier):
    out = []

    def add(fam, W, H, kmax, tier_k):
        inside, outside = alphabet(W, H, fam)
        n = len(inside) + len(outside)
        for first in range(n):
            out.append(dict(fam=fam, W=W, H=H, kmax=kmax, first=first, kinds=tier_k))
        out.append(dict(fam=fam, W=W, H=H, kmax=0, first=-1, kinds=tier_k))

    if tier == 'quick':
        for fam in ('HALF', 'DEC1'):
            add(fam, 3, 3, 3, 'quick')
        for fam in ('INT', 'DEC3', 'DEC7'):
            add(fam, 3, 2, 3, 'quick')
        add('NEAR6', 4, 4, 2, 'quick')
        add('BIG5', 3, 3, 2, 'quick')
        add('BIG6', 3, 2, 2, 'quick')
        add('BIGNEAR', 3, 3, 2, 'quick')
    else:
        add('BIGNEAR', 3, 3, 3, 'quick')
        for fam in ('BIG5', 'BIG6', 'BIG7'):
            add(fam, 3, 3, 3, 'quick')
        add('NEAR6', 4, 4, 3, 'quick')
        for fam in ('INT', 'HALF', 'DEC1', 'DEC3', 'DEC7'):
            add(fam, 3, 3, 3, 'thorough')
            add(fam, 3, 2, 3, 'thorough')
            add(fam, 2, 2, 4, 'quick')
        for fam in ('HALF', 'DEC1'):
            add(fam, 4, 4, 3, 'quick')
    return out


def ex_of(fam, r):
    f = FAMILIES[fam]
    return (f(r[0]), f(r[1]), f(r[2]), f(r[3]))


def vec(e, tag=None):
    cx, cy, w, h = center_shape(e)
    v = [num(cx), num(cy), num(w), num(h)]
    if tag:
        v.append(tag)
    return v


def snap(val, coords, tol):
    for c in coords:
        if abs(val - float(c)) <= tol:
            return c
    return None


def check_case(case, res):
    from frame.die.die import Die
    from frame.netlist.netlist import Netlist
    fam, W, H = case['fam'], case['W'], case['H']
    f = FAMILIES[fam]
    items = [(tuple(r), k) for r, k in case['items']]
    die_ex = (F(0), F(0), f(W), f(H))
    scale = float(max(f(W), f(H)))
    tol = 1e-9 * scale
    exs = [ex_of(fam, r) for r, _ in items]
    valid = all(xinside(e, die_ex) for e in exs) and all(xinter(a, b) is None for a, b in itertools.combinations(exs, 2))
    attrs = dict(fam=fam, valid=valid, n=len(items), terminals_only=bool(case.get('terminals_only')), exact=fam in ('INT', 'HALF'),
                 touches_border=any(e[2] == die_ex[2] or e[3] == die_ex[3] for e in exs),
                 has_fixed=any(k == 'fixed' for _, k in items))
    # ---- build the description
    tree = {'width': num(f(W)), 'height': num(f(H))}
    regions = [vec(e, k) for e, (_, k) in zip(exs, items) if k != 'fixed']
    if regions:
        # a single region may also be written in the flat form  regions: [x, y, w, h, tag]
        tree['regions'] = regions[0] if (case.get('flat') and len(regions) == 1) else regions
    fixed = [e for e, (_, k) in zip(exs, items) if k == 'fixed']
    netlist = None
    if case.get('terminals_only') and not fixed:
        # a design whose netlist has only terminals (no dimensions at all) attached to the die
        netlist = Netlist({'Modules': {'T1': {'terminal': True, 'center': [0, 0]}, 'T2': {'terminal': True}}, 'Nets': [['T1', 'T2']]})
    if case.get('macro') and not fixed:
        # the netlist of the design also has a MOVABLE hard macro in the middle of the die (over whatever regions are
        # there) whose rectangle was (re)assigned through the netlist's API: it is not a region of the die
        mv = [num(f(W) / 2), num(f(H) / 2), num(f(W) / 2), num(f(H) / 2)]
        try:
            netlist = Netlist({'Modules': {'Hm': {'hard': True, 'rectangles': [list(mv)]}, 'S': {'area': float(f(1)) ** 2}}, 'Nets': [['Hm', 'S']]})
            netlist.assign_rectangles({'Hm': [list(mv)]})
        except Exception as e:  # noqa
            res.violation('netlist-rejected', case, attrs, 'netlist with a hard macro loads', f'{type(e).__name__}: {e}')
            res.case('netlist-rejected')
            return
    if fixed:
        mods = {}
        if case.get('macro'):
            mv = [num(f(W) / 2), num(f(H) / 2), num(f(W) / 2), num(f(H) / 2)]
            mods['Hm'] = {'hard': True, 'rectangles': [list(mv)]}
        if case.get('one_module') and len(fixed) == 2:
            mods['F1'] = {'fixed': True, 'rectangles': [vec(e) for e in fixed]}
        else:
            for i, e in enumerate(fixed):
                # (the keys of a mapping have no order: 'rectangles' before 'fixed' for every other module)
                mods[f'F{i + 1}'] = {'fixed': True, 'rectangles': [vec(e)]} if (i + len(items)) % 2 == 0 else \
                    {'rectangles': [vec(e)], 'fixed': True}
        # a soft companion module of the scale of the design (the netlist derives the tolerance from its smallest module)
        mods['S'] = {'area': 1 if not fam.startswith('BIG') else float(f(1)) ** 2}
        try:
            netlist = Netlist({'Modules': mods, 'Nets': []})
            if case.get('macro'):
                netlist.assign_rectangles({'Hm': [list(mods['Hm']['rectangles'][0])]})
        except Exception as e:  # noqa
            res.violation('netlist-rejected', case, attrs, 'netlist with fixed modules loads', f'{type(e).__name__}: {e}')
            res.case('netlist-rejected')
            return
    # ---- run
    import copy
    tree_before = copy.deepcopy(tree)
    regions = copy.deepcopy(regions)       # the oracle works on its own copy of the description
    try:
        d = Die(tree, netlist)
        err = None
    except Exception as e:  # noqa
        d, err = None, e
    if tree != tree_before:
        res.violation('input-altered', case, attrs, 'the caller\'s description is left as it was', repr(tree)[:300])
    # ---- the verdict on this description (with this netlist) is a function of the description: asking again gives the same
    #      answer (whatever the answer is - this clause also covers descriptions whose validity is below the threshold)
    try:
        Die(copy.deepcopy(tree_before), netlist)
        err2 = None
    except Exception as e:  # noqa
        err2 = e
    if (err is None) != (err2 is None):
        res.violation('verdict-not-repeatable', case, attrs, 'accepted' if err is None else f'rejected ({err})',
                      'accepted' if err2 is None else f'rejected ({err2})')
    if not valid:
        # invalid by less than the comparison tolerance (an overlap / overhang of area < 1e-9*scale^2, e.g. a
        # 1e-6 x 1e-6 corner): below any area tolerance, both answers accepted (DESIGN 3.2)
        worst = max([xarea(xinter(a, b)) for a, b in itertools.combinations(exs, 2) if xinter(a, b)] +
                    [xarea(e) - (xarea(xinter(e, die_ex)) if xinter(e, die_ex) else 0) for e in exs] + [F(0)])
        if float(worst) <= 1e-9 * scale * scale:
            res.counters['ambiguous:invalid-below-tolerance'] += 1
            res.case('invalid-ambiguous', nontrivial=False)
            return
        if d is not None:
            res.violation('accepts-invalid', case, attrs, 'rejection', 'Die(...) returned')
        res.case('invalid-rejected' if d is None else 'invalid-accepted')
        return
    if d is None:
        res.violation('rejects-valid', case, dict(attrs, exc=type(err).__name__), 'Die(...) returns',
                      f'{type(err).__name__}: {err}')
        res.case('valid-rejected')
        return
    # ---- valid and accepted: the reported regions tile the die (checked on the reported coordinates themselves, with
    #      tolerance: any exact tiling is admissible, the cut lines need not be those of the description)
    reported = [('ground', r) for r in d.ground_regions] + [('spec', r) for r in d.specialized_regions] + \
               [('block', r) for r in d.blockages] + [('fixed', r) for r in d.fixed_regions]
    boxes = []
    W_, H_ = float(die_ex[2]), float(die_ex[3])
    for cls, r in reported:
        c, s_ = r.center, r.shape
        q = (c.x - s_.w / 2, c.y - s_.h / 2, c.x + s_.w / 2, c.y + s_.h / 2)
        if not (s_.w > 0 and s_.h > 0):
            res.violation('tiling-inside', case, attrs, 'a proper rectangle', f'{cls} {r!r}')
        if q[0] < -tol or q[1] < -tol or q[2] > W_ + tol or q[3] > H_ + tol:
            res.violation('tiling-inside', case, attrs, 'inside the die', f'{cls} {r!r}')
        boxes.append(q)
        if cls == 'ground' and r.region != '_':
            res.violation('ground-tag', case, attrs, '_', r.region)
    for a, b in itertools.combinations(boxes, 2):
        if min(a[2], b[2]) - max(a[0], b[0]) > tol and min(a[3], b[3]) - max(a[1], b[1]) > tol:
            res.violation('tiling-overlap', case, attrs, 'pairwise disjoint', [list(a), list(b)])
            break
    fsum = sum((q[2] - q[0]) * (q[3] - q[1]) for q in boxes)
    if abs(fsum - W_ * H_) > 1e-9 * scale * scale:
        res.violation('tiling-area', case, attrs, W_ * H_, fsum)
    # ---- every input region reported once, unchanged, with its tag
    want = sorted((tuple(v[:4]), v[4]) for v in regions)
    got = sorted(((r.center.x, r.center.y, r.shape.w, r.shape.h), r.region)
                 for r in d.specialized_regions + d.blockages)
    if want != got:
        res.violation('inputs-reported', case, attrs, want, got)
    if any(r.region != '#' for r in d.blockages) or any(r.region in ('#', '_') for r in d.specialized_regions):
        res.violation('inputs-reported', case, attrs, 'blockages tagged #, specialised regions with their tag',
                      [r.region for r in d.blockages + d.specialized_regions])
    wantf = sorted(tuple(vec(e)) for e in fixed)
    gotf = sorted((r.center.x, r.center.y, r.shape.w, r.shape.h) for r in d.fixed_regions)
    if wantf != gotf:
        res.violation('fixed-reported', case, attrs, wantf, gotf)
    # ---- the same description object builds the same die again
    try:
        d_again = Die(tree, netlist)
        again = sorted((r.center.x, r.center.y, r.shape.w, r.shape.h, r.region) for r in
                       d_again.ground_regions + d_again.specialized_regions + d_again.blockages + d_again.fixed_regions)
        first = sorted((r.center.x, r.center.y, r.shape.w, r.shape.h, r.region) for r in
                       d.ground_regions + d.specialized_regions + d.blockages + d.fixed_regions)
        if again != first:
            res.violation('second-construction', case, attrs, first, again)
    except Exception as e:  # noqa
        res.violation('second-construction', case, attrs, 'the same description is accepted again', f'{type(e).__name__}: {e}')
    # ---- reading the die does not change it: query everything, then compare the region lists again
    def snapshot():
        return [(cls, r.center.x, r.center.y, r.shape.w, r.shape.h, r.region, r.fixed)
                for cls, lst in (('g', d.ground_regions), ('s', d.specialized_regions), ('b', d.blockages),
                                 ('f', d.fixed_regions)) for r in lst]
    snap0 = snapshot()
    try:
        fr1 = d.floorplanning_rectangles()
        fr2 = d.floorplanning_rectangles()
        _ = (d.write_yaml(), d.bounding_box, d.width, d.height, d.netlist)
        n_ref = len(d.specialized_regions) + len(d.ground_regions)
        if len(fr1[0]) != n_ref or len(fr2[0]) != n_ref or len(fr1[1]) != len(d.fixed_regions):
            res.violation('read-mutates', case, attrs, f'{n_ref} refinable rectangles on every call',
                          [len(fr1[0]), len(fr2[0])])
    except Exception as e:  # noqa
        res.violation('read-raises', case, attrs, 'accessors succeed', f'{type(e).__name__}: {e}')
    if snapshot() != snap0:
        res.violation('read-mutates', case, attrs, 'regions unchanged by floorplanning_rectangles()/write_yaml()',
                      'region lists differ after reading')
    res.case('valid-accepted')


def run_shard(shard, tier, res):
    fam, W, H, kmax = shard['fam'], shard['W'], shard['H'], shard['kmax']
    if shard['first'] < 0:
        reset_frame_state()
        check_case(dict(fam=fam, W=W, H=H, items=[]), res)
        res.nontrivial -= 1
        return
    inside, outside = alphabet(W, H, fam)
    alpha = inside + outside
    first = shard['first']
    a = alpha[first]
    for k in range(1, kmax + 1):
        for tail in itertools.combinations(alpha[first + 1:], k - 1):
            rects = (a,) + tail
            # at most one 'leaving' rectangle per set keeps the invalid cases simple (one defect at a time) ...
            if sum(1 for r in rects if r in outside) > 1:
                continue
            kv = kind_vectors(k, shard['kinds']) if k <= 3 else [('#', 'dsp', 'fixed', '#'), ('dsp', 'fixed', 'fixed', '#')]
            for kinds in kv:
                items = [[list(r), kd] for r, kd in zip(rects, kinds)]
                variants = [False]
                if sum(1 for kd in kinds if kd == 'fixed') == 2:
                    fx = [ex_of(fam, r) for r, kd in zip(rects, kinds) if kd == 'fixed']
                    if xinter(fx[0], fx[1]) is None:
                        variants = [False, True]
                for one in variants:
                    reset_frame_state()
                    check_case(dict(fam=fam, W=W, H=H, items=items, one_module=one), res)
                if k <= 2 and kinds[0] != 'dsp':
                    reset_frame_state()
                    check_case(dict(fam=fam, W=W, H=H, items=items, one_module=False, macro=True), res)
                if k == 1:
                    # the same rectangle twice under two different tags (a complete overlap): invalid
                    for other in [t for t in ('#', 'dsp', 'bram') if t != kinds[0]]:
                        if kinds[0] == 'fixed':
                            continue
                        for order in (0, 1):
                            dup = [[list(rects[0]), kinds[0]], [list(rects[0]), other]]
                            reset_frame_state()
                            check_case(dict(fam=fam, W=W, H=H, items=(dup if order == 0 else dup[::-1]), one_module=False), res)
                if k == 1 and kinds[0] != 'fixed':
                    reset_frame_state()
                    check_case(dict(fam=fam, W=W, H=H, items=items, one_module=False, terminals_only=True), res)
                    reset_frame_state()
                    check_case(dict(fam=fam, W=W, H=H, items=items, one_module=False, flat=True), res)
    res.samples.append(dict(fam=fam, W=W, H=H, items=[[list(a), 'dsp']]))


replay = replay_via(check_case)
