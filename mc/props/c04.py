"""
C04 - Netlist write -> read round trip preserves the design.

Enumerated: documents with 1..3 modules drawn from a 24-variant alphabet (soft with scalar / per-region areas,
centre, aspect ratio, rectangles in regions, exponent-notation values; hard, flippable, non-orthogon, fixed,
terminal kinds) and all small net sets with weights {omitted, 1, 2, 0.5}.
Oracle: field-by-field equality of the reloaded design, idempotence of the written text, the writer leaves
the source object unchanged; both the string and the file path of write/read.
"""
from __future__ import annotations

import copy
import itertools
import os
import tempfile

from mc import netdocs as nd
from mc.common import reset_frame_state, replay_via

ID = 'C04'
LEVEL = 'exploration'
PRELOAD = ['frame.geometry.geometry', 'frame.netlist.netlist', 'frame.die.die', 'frame.allocation.allocation', 'ruamel.yaml', 'mc.common', 'mc.netdocs']
RULE = ("documents = module tuples over 40 module variants x net sets; also after create_squares() / assign_rectangles() on the loaded netlist; quick: all 1- and 2-module tuples x all single nets + two-net sets, "
        "3-module tuples over a 9-variant sub-alphabet x reduced nets; thorough: 3-module tuples over 14 variants. "
        "Non-trivial = documents with at least one attribute beyond a bare scalar-area soft module (i.e. every document except M0={area:4}); "
        "distinct by construction.")
ASSUMPTIONS = ["numbers must survive the round trip bit-exactly (the YAML writer emits repr-exact floats)",
               "rectangle order is compared order-insensitively (recognition may move the trunk first); the text idempotence check covers order"]
BOUNDS = {'quick': 'k<=2 complete (24 + 576 tuples), k=3 over 9 variants (729 tuples)', 'thorough': 'k=3 over 14 variants (2744 tuples), all net sets'}

SUB9 = ['s_ctr', 's_multi', 's_ar', 's_rect_reg', 'h_stog', 'h_flip', 'f_one', 't_ctr', 't_plain']
SUB14 = SUB9 + ['s_dsp', 's_exp', 's_ctr_rect', 'h_nonstog', 't_fixed']


def tuples_for(tier):
    n = len(nd.VARIANTS)
    out = [(i,) for i in range(n)] + list(itertools.product(range(n), repeat=2))
    sub = [nd.VIDX[x] for x in (SUB9 if tier == 'quick' else SUB14)]
    out += list(itertools.product(sub, repeat=3))
    return out


UNSORTED_NAMES = ['Mz', 'Ma', 'Mk']


def shards(tier):
    tl = tuples_for(tier)
    step = 12 if tier == 'quick' else 10
    return [dict(lo=lo, hi=min(len(tl), lo + step)) for lo in range(0, len(tl), step)]


def check_case(case, res):
    from frame.netlist.netlist import Netlist
    vt = tuple(case['mods'])
    nets = [(tuple(m), w) for m, w in case['nets']]
    doc = nd.build_doc(vt, nets)
    # the modules are listed in an order that is NOT the alphabetical order of their names (the order of the modules is
    # part of the design)
    ren = dict(zip(nd.module_names(3), UNSORTED_NAMES))
    doc = {'Modules': {ren[k]: v for k, v in doc['Modules'].items()},
           'Nets': [[ren.get(x, x) if isinstance(x, str) else x for x in e] for e in doc['Nets']]}
    names = [nd.VARIANTS[i][0] for i in vt]
    attrs = dict(variants=names, nnets=len(nets))
    try:
        n = Netlist(copy.deepcopy(doc))
    except Exception as e:  # noqa
        raise RuntimeError(f'C04 harness: well-formed document rejected {doc}: {type(e).__name__}: {e}')
    hist = case.get('hist')
    if hist:
        # the netlist reaches the state that is written through the library's own API after loading (what the allocation
        # and floorplanning stages do before they write their result): it is still a netlist, and write -> read must
        # reproduce it
        attrs['hist'] = hist
        try:
            if hist == 'squares':
                n.create_squares()
            else:
                m2r = {}
                for nm, node in doc['Modules'].items():
                    rl = node.get('rectangles')
                    if rl:
                        m2r[nm] = [list(rl)] if isinstance(rl[0], (int, float)) else [list(r) for r in rl]
                n.assign_rectangles(m2r)
        except Exception as e:  # noqa
            res.violation('history-raises', case, attrs, f'{hist} succeeds', f'{type(e).__name__}: {e}')
            res.case('history-raised')
            return
    m0 = nd.loaded_model(n)
    try:
        text = n.write_yaml()
    except Exception as e:  # noqa
        res.violation('write-raises', case, attrs, 'a document', f'{type(e).__name__}: {e}')
        res.case('write-raised')
        return
    if nd.loaded_model(n) != m0:
        res.violation('write-mutates', case, attrs, 'source netlist unchanged by write_yaml', 'changed')
    reset_frame_state()
    try:
        n2 = Netlist(text)
    except Exception as e:  # noqa
        res.violation('reload-rejected', case, attrs, 'the written document loads', f'{type(e).__name__}: {e}\n{text}')
        res.case('reload-rejected')
        return
    m2 = nd.loaded_model(n2)
    for (field, exp, got) in nd.compare_models(m0, m2, exact=True):
        which = [v for v, nm in zip(names, UNSORTED_NAMES) if isinstance(exp, tuple) and exp and exp[0] == nm]
        res.violation('field:' + field, case, dict(attrs, field=field, variant=(which[0] if which else None)), exp, got)
    text2 = n2.write_yaml()
    if text2 != text:
        res.violation('not-idempotent', case, attrs, text, text2)
    if case.get('file'):
        d = os.path.join(tempfile.gettempdir(), 'c04.reused')     # the same file name for every case of the process
        os.makedirs(d, exist_ok=True)
        try:
            path = os.path.join(d, 'netlist.yaml')
            n.write_yaml(path)
            reset_frame_state()
            n3 = Netlist(path)
            if nd.compare_models(m0, nd.loaded_model(n3), exact=True) or open(path).read() != text:
                res.violation('file-path', case, attrs, 'file round trip equals string round trip', 'differs')
        except Exception as e:  # noqa
            res.violation('file-path', case, attrs, 'file round trip works', f'{type(e).__name__}: {e}')
        finally:
            for f in os.listdir(d):
                os.unlink(os.path.join(d, f))
            os.rmdir(d)
    res.case('+'.join(sorted(set(x.split('_')[0] for x in names))), nontrivial=not (names == ['s_int'] and not nets))


def nets_for(k, tier, full):
    if k == 1:
        return [[]]
    if full:
        return nd.net_sets(k, 2)
    # reduced: no net, each single net with two weights, one two-net set
    ns = nd.net_sets(k, 1)
    out = [x for x in ns if not x or x[0][1] in (None, 0.5)]
    out.append([((0, 1), 2), (tuple(range(k)), None)])
    return out


def run_shard(shard, tier, res):
    tl = tuples_for(tier)[shard['lo']:shard['hi']]
    for vt in tl:
        k = len(vt)
        full = (k <= 2) or tier == 'thorough'
        for j, nets in enumerate(nets_for(k, tier, full)):
            reset_frame_state()
            check_case(dict(mods=list(vt), nets=[[list(m), w] for m, w in nets], file=(j == 0)), res)
            if j == 0 or (k == 2 and j == 1):
                nodes = [nd.VARIANTS[i][1] for i in vt]
                if any('rectangles' in nd_ for nd_ in nodes):
                    reset_frame_state()
                    check_case(dict(mods=list(vt), nets=[[list(m), w] for m, w in nets], hist='assign'), res)
                # default squares can be created when every module without rectangles has a centre (terminals have no area)
                if any('rectangles' not in nd_ for nd_ in nodes) and \
                        all('rectangles' in nd_ or ('center' in nd_ and not nd_.get('terminal')) for nd_ in nodes):
                    reset_frame_state()
                    check_case(dict(mods=list(vt), nets=[[list(m), w] for m, w in nets], hist='squares'), res)
    res.samples.append(dict(mods=list(tl[-1]), nets=[[[0, 1], 0.5]] if len(tl[-1]) > 1 else []))


replay = replay_via(check_case)
