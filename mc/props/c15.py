"""
C15 - Grid orthogon decomposition finds exactly the single-trunk decompositions.

Enumerated: every 0/1 matrix of every shape with rows*cols <= N (N=14 + all 4x4, 3x5, 5x3 quick; N=20 thorough);
every simple single-trunk polygon on grids up to 3x4 as a vertex list through three coordinate families, both
orientations, every start vertex, open and closed, as Points and as numpy rows.
Oracle: brute-force existence of a trunk rectangle (cell-wise, no histograms); partition validity of every offered
instance; exact shoelace area; cross-check with the netlist-side recogniser.
"""
from __future__ import annotations

import itertools
from fractions import Fraction as F

from mc.common import reset_frame_state, replay_via

ID = 'C15'
LEVEL = 'exploration'
PRELOAD = ['frame.geometry.geometry', 'frame.netlist.netlist', 'frame.die.die', 'frame.allocation.allocation', 'ruamel.yaml', 'mc.common', 'tools.floorset_parser.floor_set_manager.utils.utils', 'numpy']
RULE = ("all 0/1 matrices of all shapes with rows*cols <= 14 plus all 4x4, 3x5 and 5x3 matrices (quick) / rows*cols <= 20 (thorough); vertex lists of all "
        "simple single-trunk polygons on grids <= 3x4 x 4 coordinate families x 2 orientations x every start vertex x {open, closed} x {Point, numpy float64, numpy float32}. "
        "Non-trivial = matrices with >= 2 one-cells that are not a full rectangle (a decomposition question arises); distinct by construction.")
ASSUMPTIONS = ["row 0 of a matrix is the top row (the library's convention); unit cell sizes for the matrix part",
               "vertex-list part: polygons without pinch points (cells meeting only at a corner), as a simple polygon requires"]
BOUNDS = {'quick': 'matrices: rows*cols<=14, 4x4, 3x5, 5x3 (about 330 000); polygons on grids up to 3x3', 'thorough': 'matrices: rows*cols<=20 (about 6.3 million); polygons on grids up to 3x4 and 4x3'}


def shapes(limit):
    return [(r, c) for r in range(1, limit + 1) for c in range(1, limit + 1) if r * c <= limit]


def shards(tier):
    out = []
    if tier == 'quick':
        shp = shapes(14) + [(4, 4), (3, 5), (5, 3)]
    else:
        shp = shapes(20)
    for (r, c) in shp:
        n = r * c
        parts = 1 if n <= 12 else 2 ** (n - 12)
        parts = min(parts, 64)
        for p in range(parts):
            out.append(dict(kind='matrix', r=r, c=c, part=p, parts=parts))
    grids = [(2, 2), (2, 3), (3, 2), (3, 3)] + ([(3, 4), (4, 3)] if tier == 'thorough' else [])
    for (r, c) in grids:
        for fam in ('UNI', 'NONUNI', 'DEC1', 'DEC1_100'):
            out.append(dict(kind='poly', r=r, c=c, fam=fam))
    return out


# ------------------------------------------------------------------ oracle on matrices
def is_trunk(m, R, C, t):
    """cell-wise: t=(r0,r1,c0,c1) inclusive is all ones and every other one-cell is in the row band or the column
    band of t with all cells between it and t filled"""
    r0, r1, c0, c1 = t
    for i in range(r0, r1 + 1):
        for j in range(c0, c1 + 1):
            if not m[i][j]:
                return False
    for i in range(R):
        for j in range(C):
            if not m[i][j] or (r0 <= i <= r1 and c0 <= j <= c1):
                continue
            if c0 <= j <= c1:
                rng = range(i + 1, r0) if i < r0 else range(r1 + 1, i)
                if not all(m[k][j] for k in rng):
                    return False
            elif r0 <= i <= r1:
                rng = range(j + 1, c0) if j < c0 else range(c1 + 1, j)
                if not all(m[i][k] for k in rng):
                    return False
            else:
                return False
    return True


def exists_decomposition(m, R, C):
    for r0 in range(R):
        for r1 in range(r0, R):
            for c0 in range(C):
                for c1 in range(c0, C):
                    if is_trunk(m, R, C, (r0, r1, c0, c1)):
                        return True
    return False


def check_instance(m, R, C, inst):
    """the rectangles of an offered instance partition the one-cells; each branch abuts the trunk within its extent"""
    rects = list(inst.rectangles())
    t = inst.trunk()
    if sum(1 for r in rects if r == t) != 1:
        return 'the trunk is not among the rectangles exactly once'
    cover = {}
    for k, r in enumerate(rects):
        if r.empty():
            return f'empty rectangle {r}'
        for i in range(r.rows.low, r.rows.high + 1):
            for j in range(r.columns.low, r.columns.high + 1):
                if not (0 <= i < R and 0 <= j < C) or not m[i][j]:
                    return f'rectangle {k} covers a zero cell ({i},{j})'
                if (i, j) in cover:
                    return f'cell ({i},{j}) covered twice'
                cover[(i, j)] = k
    ones = sum(1 for i in range(R) for j in range(C) if m[i][j])
    if len(cover) != ones:
        return f'{ones - len(cover)} one-cells not covered'
    for side, lst in (('N', list(inst.rectangles('N'))), ('S', list(inst.rectangles('S'))),
                      ('E', list(inst.rectangles('E'))), ('W', list(inst.rectangles('W')))):
        for b in lst:
            if side in 'NS':
                ok = t.columns.low <= b.columns.low and b.columns.high <= t.columns.high and \
                    (b.rows.high == t.rows.low - 1 if side == 'N' else b.rows.low == t.rows.high + 1)
            else:
                ok = t.rows.low <= b.rows.low and b.rows.high <= t.rows.high and \
                    (b.columns.low == t.columns.high + 1 if side == 'E' else b.columns.high == t.columns.low - 1)
            if not ok:
                return f'{side} branch {b} does not abut the trunk {t} within its extent'
    if len(rects) != 1 + sum(len(list(inst.rectangles(s))) for s in 'NSEW'):
        return 'rectangles() inconsistent with the per-side lists'
    # every selection string offers exactly the union of what its letters select (T trunk, B all branches, N S E W one side)
    per = {'T': [t], 'B': [r for r in rects if r != t]}
    for side in 'NSEW':
        per[side] = list(inst.rectangles(side))
    key = lambda r: (r.rows.low, r.rows.high, r.columns.low, r.columns.high)  # noqa
    for which in WHICH:
        want = {key(r) for ch in which for r in per[ch]}
        got = [key(r) for r in inst.rectangles(which)]
        if len(got) != len(set(got)) or set(got) != want:
            return f"rectangles('{which}') offers {sorted(got)}, the union of its letters is {sorted(want)}"
    return None


WHICH = ['T', 'B', 'TB', 'BT', 'NB', 'BS', 'TN', 'EW', 'NS', 'TNS', 'TBN', 'WBE', 'NSEW', 'TNSEW', 'TNSEWB']


def check_matrix(case, res):
    from tools.floorset_parser.floor_set_manager.strop import Strop
    R, C, bits = case['r'], case['c'], case['bits']
    m = [[bool((bits >> (i * C + j)) & 1) for j in range(C)] for i in range(R)]
    text = '\n'.join(''.join('1' if x else '0' for x in row) for row in m)
    attrs = dict(shape=[R, C])
    try:
        s = Strop(text)
        got = s.is_strop
        insts = list(s.instances())
    except Exception as e:  # noqa
        res.violation('raises', case, attrs, 'a verdict', f'{type(e).__name__}: {e}')
        res.case('raised')
        return
    want = exists_decomposition(m, R, C)
    if got != want:
        res.violation('is_strop', case, dict(attrs, want=want), want, got, note=text)
    for k, inst in enumerate(insts):
        msg = check_instance(m, R, C, inst)
        if msg:
            res.violation('instance', case, attrs, 'a valid trunk + branches partition', msg, note=text)
            break
    ones = bin(bits).count('1')
    full = False
    if ones:
        rs = [i for i in range(R) if any(m[i])]
        cs = [j for j in range(C) if any(m[i][j] for i in range(R))]
        full = ones == (rs[-1] - rs[0] + 1) * (cs[-1] - cs[0] + 1)
    res.case(('strop' if want else 'not-strop'), nontrivial=(ones >= 2 and not full))


# ------------------------------------------------------------------ polygons
COORD = {
    'UNI': lambda i: F(i),
    'NONUNI': lambda i: [F(0), F(1), F(3, 2), F(4), F(17, 4)][i],
    'DEC1': lambda i: F(i, 10) + F(3, 10),
    # one-decimal coordinates of a die-sized design (what the FloorSet handler delivers, as float32 arrays)
    'DEC1_100': lambda i: F(71 * i, 10) + F(1159, 10),
}


def boundary(m, R, C):
    """vertex list (grid index coordinates, y up, counter-clockwise) of the union of one-cells; None if the union is not
    a simple polygon (disconnected, holes, pinch points)"""
    # directed boundary edges with the interior on the left
    edges = {}
    for i in range(R):
        for j in range(C):
            if not m[i][j]:
                continue
            y0, y1 = R - 1 - i, R - i       # row 0 is the top
            x0, x1 = j, j + 1
            for (a, b, ni, nj) in (((x0, y0), (x1, y0), i + 1, j), ((x1, y0), (x1, y1), i, j + 1),
                                   ((x1, y1), (x0, y1), i - 1, j), ((x0, y1), (x0, y0), i, j - 1)):
                if 0 <= ni < R and 0 <= nj < C and m[ni][nj]:
                    continue
                if a in edges:
                    return None     # pinch point: two boundary edges leave the same vertex
                edges[a] = b
    if not edges:
        return None
    start = min(edges)
    path = [start]
    cur = edges[start]
    while cur != start:
        path.append(cur)
        if cur not in edges:
            return None
        cur = edges[cur]
        if len(path) > len(edges):
            return None
    if len(path) != len(edges):
        return None         # more than one loop: disconnected or a hole
    # drop collinear vertices
    out = []
    n = len(path)
    for k in range(n):
        p, q, r = path[k - 1], path[k], path[(k + 1) % n]
        if (q[0] - p[0]) * (r[1] - q[1]) - (q[1] - p[1]) * (r[0] - q[0]) != 0:
            out.append(q)
    return out


def check_poly(case, res):
    import numpy as np
    from frame.geometry.geometry import Point
    from frame.netlist.netlist import Netlist
    from tools.floorset_parser.floor_set_manager.utils.utils import strop_decomposition
    from mc.props.c06 import is_trunk as stog_trunk
    R, C, bits, fam = case['r'], case['c'], case['bits'], case['fam']
    m = [[bool((bits >> (i * C + j)) & 1) for j in range(C)] for i in range(R)]
    verts = boundary(m, R, C)
    f = COORD[fam]
    if case['numpy'] == 'f32':
        # single-precision vertex arrays: the polygon is the one with the rounded coordinates
        g = f
        f = lambda i: F(float(np.float32(float(g(i)))))  # noqa
    exact = [(f(x), f(y)) for (x, y) in verts]
    k = case['start']
    seq = exact[k:] + exact[:k]
    if case['cw']:
        seq = list(reversed(seq))
    if case['closed']:
        seq = seq + [seq[0]]
    if case['numpy'] == 'f32':
        vs = [np.array([float(x), float(y)], dtype=np.float32) for (x, y) in seq]
    elif case['numpy']:
        vs = [np.array([float(x), float(y)]) for (x, y) in seq]
    else:
        vs = [Point(float(x), float(y)) for (x, y) in seq]
    attrs = dict(fam=fam, cw=case['cw'], closed=case['closed'], numpy=case['numpy'])
    try:
        rects = strop_decomposition(vs)
    except Exception as e:  # noqa
        res.violation('decomposition-raises', case, attrs, 'rectangles', f'{type(e).__name__}: {e}')
        res.case('raised')
        return
    # exact area by the shoelace formula
    n = len(exact)
    area = abs(sum(exact[i][0] * exact[(i + 1) % n][1] - exact[(i + 1) % n][0] * exact[i][1] for i in range(n))) / 2
    scale = float(max(max(x, y) for x, y in exact))
    tot = sum(r[2] * r[3] for r in rects)
    if abs(tot - float(area)) > 1e-9 * scale * scale:
        res.violation('area', case, attrs, float(area), tot)
    # rectangles pairwise disjoint and inside the polygon's cells: every cell centre covered exactly once
    for i in range(R):
        for j in range(C):
            cx = float((f(j) + f(j + 1)) / 2)
            cy = float((f(R - 1 - i) + f(R - i)) / 2)
            cnt = sum(1 for r in rects if abs(cx - r[0]) < r[2] / 2 and abs(cy - r[1]) < r[3] / 2)
            if cnt != (1 if m[i][j] else 0):
                res.violation('cover', case, attrs, f'cell ({i},{j}) covered {1 if m[i][j] else 0} time(s)', cnt)
                break
    # loaded as a hard module: recognised as a single-trunk orthogon with a trunk first
    reset_frame_state()
    try:
        nl = Netlist({'Modules': {'B': {'hard': True, 'rectangles': [list(r) for r in rects]}}})
        mod = nl.get_module('B')
        if not mod.has_stog:
            res.violation('recognised', case, attrs, 'has_stog', False)
        else:
            ex = []
            for r in mod.rectangles:
                ex.append((F(r.center.x) - F(r.shape.w) / 2, F(r.center.y) - F(r.shape.h) / 2,
                           F(r.center.x) + F(r.shape.w) / 2, F(r.center.y) + F(r.shape.h) / 2))
            if not fam.startswith('DEC1') and not stog_trunk(ex, 0):
                res.violation('recognised', case, attrs, 'first rectangle is a trunk', [str(v) for v in ex[0]])
            # the decomposition's own first rectangle is its trunk
            first = rects[0]
            if not fam.startswith('DEC1'):
                e0 = (F(first[0]) - F(first[2]) / 2, F(first[1]) - F(first[3]) / 2, F(first[0]) + F(first[2]) / 2,
                      F(first[1]) + F(first[3]) / 2)
                allr = [(F(r[0]) - F(r[2]) / 2, F(r[1]) - F(r[3]) / 2, F(r[0]) + F(r[2]) / 2, F(r[1]) + F(r[3]) / 2)
                        for r in rects]
                if allr[0] != e0 or not stog_trunk(allr, 0):
                    res.violation('trunk-first', case, attrs, 'the decomposition lists its trunk first', first)
    except Exception as e:  # noqa
        res.violation('recognised', case, attrs, 'the module loads', f'{type(e).__name__}: {e}')
    res.case('polygon', nontrivial=len(rects) > 1)


def check_case(case, res):
    if case['kind'] == 'matrix':
        check_matrix(case, res)
    else:
        check_poly(case, res)


def run_shard(shard, tier, res):
    R, C = shard['r'], shard['c']
    if shard['kind'] == 'matrix':
        n = R * C
        total = 2 ** n
        lo = total * shard['part'] // shard['parts']
        hi = total * (shard['part'] + 1) // shard['parts']
        for bits in range(lo, hi):
            check_matrix(dict(kind='matrix', r=R, c=C, bits=bits), res)
        res.samples.append(dict(kind='matrix', r=R, c=C, bits=lo + (hi - lo) // 3))
        return
    fam = shard['fam']
    npoly = 0
    for bits in range(1, 2 ** (R * C)):
        m = [[bool((bits >> (i * C + j)) & 1) for j in range(C)] for i in range(R)]
        # the polygon must span the whole grid (otherwise it is enumerated on a smaller grid)
        if not (any(m[0]) and any(m[R - 1]) and any(row[0] for row in m) and any(row[C - 1] for row in m)):
            continue
        if not exists_decomposition(m, R, C):
            continue
        verts = boundary(m, R, C)
        if verts is None:
            continue
        npoly += 1
        for start in range(len(verts)):
            for cw in (False, True):
                for closed in (False, True):
                    for np_ in (False, True, 'f32'):
                        if (closed or np_) and start % 3 != 0:
                            continue        # closed / numpy variants from every third start vertex
                        reset_frame_state()
                        check_poly(dict(kind='poly', r=R, c=C, bits=bits, fam=fam, start=start, cw=cw, closed=closed,
                                        numpy=np_), res)
    res.counters['polygons'] += npoly
    res.samples.append(dict(kind='poly', r=R, c=C, fam=fam, polygons=npoly))


replay = replay_via(check_case)
