"""
C03 - Initial allocation equals the exact geometric overlap.

Enumerated: (die, netlist, include-zero flag, pre-refinement) with dies of <=2 regions on a 3x3-cell
grid and netlists of fixed modules (dictated by the die) plus <=2 movable modules from a 20-variant
alphabet (centre-only squares, soft rectangles inside / overlapping / sticking out, hard shapes).
Oracle: overlap ratios recomputed independently from the document (exact rationals for rectangle
modules, floats for the irrational squares), compared with 1e-9 tolerance.
"""
from __future__ import annotations

import itertools
import math
from fractions import Fraction as F

from mc.common import FAMILIES, grid_rects, xinter, center_shape, num, reset_frame_state, replay_via

ID = 'C03'
LEVEL = 'exploration'
RULE = ("dies: all valid region sets of size <=2 (kinds '#', 'dsp', fixed) on a 3x3-cell grid, families HALF and DEC1, optionally refined "
        "(split_refinable_regions / initial_grid); netlists: the fixed modules the die dictates + every set of <=2 movable modules from 20 variants "
        "(5 centre-only squares incl. irrational side and sticking out, 12 soft rectangle shapes incl. two-rectangle, out-of-die and 1e-6 near misses of a cell boundary, 5 hard shapes), also after the movable module was relocated in place following a first allocation, after its rectangles were re-assigned through Netlist.assign_rectangles and after a fixed module was released (is_fixed = False) or released and fixed again before the die was built; both "
        "include-zero settings where defined; a die of 29999.1 units with <=1 region and a 1 x 1 module next to a die-sized one. Non-trivial = cases in which at least one movable module partially covers at least one cell "
        "(0 < ratio < 1); distinct by construction.")
ASSUMPTIONS = ["ratios compared with 1e-9; a module is expected to be listed iff its exact overlap with the cell is positive; "
               "overlaps that are zero only up to rounding (touching an irrational square) are not judged (counted 'ambiguous')",
               "include_area_zero=True only when every module touches some cell (the statement's own restriction)"]
BOUNDS = {'quick': 'dies with <=1 region x sets of <=2 movable modules; dies with 2 regions x <=1 movable module; HALF complete, DEC1 with <=1 region',
          'thorough': 'both families complete; dies with 2 regions x <=2 movable modules on a reduced (10-variant) alphabet'}

# a die of 29999.1 units (9999.7 per grid step) whose netlist also has a module of 1 x 1 unit: the tolerance that the netlist
# derives from its smallest module (1e-12) is below one ulp of the die's coordinates
FAMILIES = dict(FAMILIES, BIGU=lambda i: F(99997, 10) * i)

KINDS2 = [('#', 'dsp'), ('dsp', 'fixed'), ('fixed', '#'), ('fixed', 'fixed'), ('dsp', 'bram')]
H = F(1, 2)


def movable_variants():
    """(name, spec) ; rect coordinates in half grid steps, centres/areas in grid steps"""
    v = []
    for i, (cx, cy, a) in enumerate([(F(3, 2), F(3, 2), F(1)), (F(1), F(1), F(9, 4)), (F(1, 4), F(11, 4), F(1)),
                                     (F(3), F(3, 2), F(1)), (F(2), F(1), F(2))]):
        v.append((f'sq{i}', dict(kind='soft', centre=(cx, cy), area=a, rects=[])))
    # the same squares for modules whose area is split over two regions (the square has the TOTAL area)
    v.append(('sqR0', dict(kind='soft', centre=(F(3, 2), F(3, 2)), area=F(1), rects=[], regions=True)))
    v.append(('sqR1', dict(kind='soft', centre=(F(1), F(1)), area=F(9, 4), rects=[], regions=True)))
    singles = dict(A=(0, 0, 4, 2), B=(2, 2, 6, 6), C=(1, 1, 3, 3), D=(4, 0, 8, 2), E=(0, 4, 2, 7), Fw=(0, 0, 6, 6),
                   G=(3, 1, 5, 5))
    for k, r in singles.items():
        v.append((f'soft{k}', dict(kind='soft', rects=[r])))
    v.append(('softL', dict(kind='soft', rects=[(0, 0, 4, 2), (0, 2, 2, 4)])))
    v.append(('soft2', dict(kind='soft', rects=[(0, 0, 2, 2), (4, 4, 6, 6)])))
    v.append(('softDL', dict(kind='soft', rects=[(4, 0, 8, 2), (4, 2, 6, 4)])))
    # near misses: an edge 1e-6 grid steps short of / beyond a cell boundary (coverage 0.999999.. resp. 0.000001..)
    e6 = F(1, 500000)       # in half steps
    v.append(('softShort', dict(kind='soft', rects=[(0, 0, 4 - e6, 2)])))
    v.append(('softOver', dict(kind='soft', rects=[(2, 2, 4 + e6, 4 + e6)])))
    for k in ('A', 'B', 'C', 'G'):
        v.append((f'hard{k}', dict(kind='hard', rects=[singles[k]])))
    v.append(('hardL', dict(kind='hard', rects=[(0, 0, 4, 2), (0, 2, 2, 4)])))
    # a module of 1 x 1 unit whatever the grid step (only used with the large-die family)
    v.append(('sqUnit', dict(kind='soft', centre=(F(3, 2), F(3, 2)), area='unit', rects=[])))
    return v


VARIANTS = movable_variants()
REDUCED = [i for i, (n, _) in enumerate(VARIANTS) if n in ('sq0', 'sq2', 'sq4', 'softA', 'softC', 'softD', 'softFw', 'softL', 'softShort', 'hardB', 'hardL')]


def die_descriptions(kmax):
    rects = grid_rects(3, 3)
    out = [[]]
    for r in rects:
        for k in ('#', 'dsp', 'fixed'):
            out.append([(r, k)])
    if kmax >= 2:
        for a, b in itertools.combinations(rects, 2):
            if xinter(tuple(map(F, a)), tuple(map(F, b))) is None:
                for ka, kb in KINDS2:
                    out.append([(a, ka), (b, kb)])
    return out


def module_sets(nmax, alphabet=None):
    idx = [i for i, (n, _) in enumerate(VARIANTS) if n != 'sqUnit'] if alphabet is None else alphabet
    out = [()]
    for i in idx:
        out.append((i,))
    if nmax >= 2:
        for i, j in itertools.combinations_with_replacement(idx, 2):
            out.append((i, j))
    return out


def shards(tier):
    out = []
    d1 = len(die_descriptions(1))
    d2 = len(die_descriptions(2))
    fams = [('HALF', True), ('DEC1', tier != 'quick')]
    for fam, full in fams:
        for lo in range(0, d1, 4):
            out.append(dict(fam=fam, lo=lo, hi=min(d1, lo + 4), nmod=2, reduced=False))
        if full:
            for lo in range(d1, d2, 40):
                out.append(dict(fam=fam, lo=lo, hi=min(d2, lo + 40), nmod=(1 if tier == 'quick' else 2), reduced=(tier != 'quick')))
    for fam in ('HALF', 'DEC1'):
        for lo in range(0, d1, 6):
            out.append(dict(fam=fam, refine=True, lo=lo, hi=min(d1, lo + 6)))
    for lo in range(0, d1, 6):
        out.append(dict(fam='HALF', moved=True, lo=lo, hi=min(d1, lo + 6)))
    for lo in range(0, d1, 6):
        out.append(dict(fam='BIGU', unit=True, lo=lo, hi=min(d1, lo + 6)))
    for fam in ('HALF', 'DEC1'):
        for lo in range(0, d1, 12):
            out.append(dict(fam=fam, hist=True, lo=lo, hi=min(d1, lo + 12)))
    return out


class FirstAllocationFailed(Exception):
    pass


def build(case):
    from frame.die.die import Die
    from frame.netlist.netlist import Netlist
    fam = case['fam']
    f = FAMILIES[fam]
    u = f(1) - f(0)

    def ex_idx(r):
        return (f(r[0]), f(r[1]), f(r[2]), f(r[3]))

    def ex_half(r):
        return tuple(F(c) * u / 2 for c in r)

    def vec(e, tag=None):
        cx, cy, w, h = center_shape(e)
        v = [num(cx), num(cy), num(w), num(h)]
        if tag:
            v.append(tag)
        return v

    tree = {'width': num(f(3)), 'height': num(f(3))}
    regs = [vec(ex_idx(tuple(r)), k) for r, k in case['die'] if k != 'fixed']
    if regs:
        tree['regions'] = regs
    mods = {}
    model = {}      # name -> dict(kind, rects(exact or None), square=(cx,cy,area))
    fixed = [ex_idx(tuple(r)) for r, k in case['die'] if k == 'fixed']
    if len(fixed) == 2 and case.get('one_fixed_module'):
        mods['F0'] = {'fixed': True, 'rectangles': [vec(e) for e in fixed]}
        model['F0'] = dict(kind='fixed', rects=fixed)
    else:
        for i, e in enumerate(fixed):
            mods[f'F{i}'] = {'fixed': True, 'rectangles': [vec(e)]}
            model[f'F{i}'] = dict(kind='fixed', rects=[e])
    for j, vi in enumerate(case['mods']):
        name, spec = VARIANTS[vi]
        mname = f'M{j}_{name}'
        if spec['kind'] == 'soft' and not spec['rects']:
            (cx, cy), a = spec['centre'], spec['area']
            if a == 'unit':
                a = 1 / (u * u)
            mods[mname] = {'area': num(a * u * u), 'center': [num(cx * u), num(cy * u)]}
            if spec.get('regions'):
                mods[mname]['area'] = {'_': num(a * u * u / 4), 'dsp': num(a * u * u * 3 / 4)}
            model[mname] = dict(kind='soft', rects=None, square=(float(cx * u), float(cy * u), float(a * u * u)))
        else:
            exr = [ex_half(r) for r in spec['rects']]
            d = {'rectangles': [vec(e) for e in exr]}
            if spec['kind'] == 'soft':
                d['area'] = num(sum((e[2] - e[0]) * (e[3] - e[1]) for e in exr))
            else:
                d['hard'] = True
            mods[mname] = d
            model[mname] = dict(kind=spec['kind'], rects=exr)
    if not mods:
        mods['M0_only'] = {'area': num(u * u), 'center': [num(u * F(3, 2)), num(u * F(3, 2))]}
        model['M0_only'] = dict(kind='soft', rects=None, square=(float(u * F(3, 2)), float(u * F(3, 2)), float(u * u)))
    netlist = Netlist({'Modules': mods, 'Nets': []})
    hist = case.get('hist') or ''
    if 'assign' in hist:
        # the rectangles of the movable modules are (re)assigned through the netlist's own API, as the tools do after a
        # floorplanning step, before the die of the design is built
        netlist.assign_rectangles({mn: list(md_['rectangles']) for mn, md_ in mods.items()
                                   if 'rectangles' in md_ and not md_.get('fixed')})
    if 'release' in hist:
        # a module read as fixed is released (it becomes an ordinary hard module) before the die is built
        for mn in list(model):
            if model[mn]['kind'] == 'fixed':
                netlist.get_module(mn).is_fixed = False
                model[mn] = dict(kind='hard', rects=model[mn]['rects'])
    if 'refix' in hist:
        # ... and a released module that is fixed again is a fixed module
        for mn in list(model):
            if mn.startswith('F'):
                netlist.get_module(mn).is_fixed = True
                model[mn] = dict(kind='fixed', rects=model[mn]['rects'])
    if hist:
        # the die of a netlist that went through these steps is as valid as before them: a rejection is the library's doing
        try:
            die = Die(tree, netlist)
        except Exception as e:  # noqa
            raise FirstAllocationFailed(f'Die() after {hist}: {type(e).__name__}: {e}')
    else:
        die = Die(tree, netlist)
    mv = case.get('move')
    if mv:
        # a movable module that was relocated IN PLACE after loading (what tools/spectral, tools/glbfloor and
        # tools/force do) is allocated at its new place: first an allocation at the old place (so that anything
        # derived from the old coordinates has been computed), then the move
        from frame.allocation.allocation import create_initial_allocation
        from frame.geometry.geometry import Point
        if die.floorplanning_rectangles()[0] or die.floorplanning_rectangles()[1]:
            try:
                create_initial_allocation(die, False)
            except Exception as e:  # noqa - this is the code under test, not the harness
                raise FirstAllocationFailed(f'{type(e).__name__}: {e}')
        dx, dy = F(mv[0]) * u / 2, F(mv[1]) * u / 2
        for mname, md in model.items():
            if md['kind'] == 'fixed':
                continue
            m = netlist.get_module(mname)
            if md['rects'] is None:                       # centre-only module: its square was created by the allocation
                cx, cy, a = md['square']
                m.center.x += float(dx)
                m.center.y += float(dy)
                for r in m.rectangles:
                    r.center = Point(m.center.x, m.center.y)
                md['square'] = (m.center.x, m.center.y, a)
            elif md['kind'] == 'hard':
                m.center = Point(m.center.x + float(dx), m.center.y + float(dy))
                m.recenter_rectangles()
                md['rects'] = [(e[0] + dx, e[1] + dy, e[2] + dx, e[3] + dy) for e in md['rects']]
            else:
                for r in m.rectangles:
                    r.center.x += float(dx)
                    r.center.y += float(dy)
                md['rects'] = [(e[0] + dx, e[1] + dy, e[2] + dx, e[3] + dy) for e in md['rects']]
    pre = case.get('pre')
    if pre:
        if pre[0] == 'split':
            if die.floorplanning_rectangles()[0]:       # (a die without refinable area cannot be refined)
                die.split_refinable_regions(pre[1], pre[2])
        else:
            die.initial_grid(pre[1], pre[2])
    return die, netlist, model, float(f(3))


def overlap_f(c, r):
    ox = min(c[2], r[2]) - max(c[0], r[0])
    oy = min(c[3], r[3]) - max(c[1], r[1])
    return ox * oy if ox > 0 and oy > 0 else 0.0


def check_case(case, res):
    from frame.allocation.allocation import create_initial_allocation
    attrs = dict(fam=case['fam'], zero=case['zero'], pre=bool(case.get('pre')), nmods=len(case['mods']), moved=bool(case.get('move')), hist=case.get('hist'))
    try:
        die, netlist, model, scale = build(case)
    except FirstAllocationFailed as e:
        res.violation('raises', case, dict(attrs, exc='first-allocation'), 'an allocation', str(e))
        res.case('raised')
        return
    except Exception as e:  # noqa
        # the inputs are valid by construction (C01/C05 judge the loaders): failing to build one is a harness bug
        raise RuntimeError(f'C03 harness could not build {case}: {type(e).__name__}: {e}')
    tol = 1e-9 * scale
    refinable, fixed_cells = die.floorplanning_rectangles()
    cells = [(r.center.x - r.shape.w / 2, r.center.y - r.shape.h / 2, r.center.x + r.shape.w / 2,
              r.center.y + r.shape.h / 2) for r in refinable]
    fcells = [(r.center.x - r.shape.w / 2, r.center.y - r.shape.h / 2, r.center.x + r.shape.w / 2,
               r.center.y + r.shape.h / 2) for r in fixed_cells]

    # ---- expected ratios (independent computation)
    def shape_rects(m):
        md = model[m]
        if md['rects'] is not None:
            dyadic = all((F(v).denominator & (F(v).denominator - 1)) == 0 for e in md['rects'] for v in e)
            return [tuple(float(v) for v in e) for e in md['rects']], dyadic
        cx, cy, a = md['square']
        s = math.sqrt(a)
        return [(cx - s / 2, cy - s / 2, cx + s / 2, cy + s / 2)], False

    expected = []      # per refinable cell: {m: ratio}
    optional = []      # per refinable cell: modules that only touch the cell where coordinates are rounded
    ambiguous = False
    touches = {m: False for m in model}
    partial = False
    exact_family = case['fam'] in ('HALF', 'INT')
    if not cells and not fcells:
        res.case('no-cells', nontrivial=False)        # a die without any cell: nothing to allocate
        return
    for c, rr in zip(cells, refinable):
        area_c = (c[2] - c[0]) * (c[3] - c[1])
        row, opt = {}, set()
        sliver = min(c[2] - c[0], c[3] - c[1]) <= tol
        if sliver:
            # a cell thinner than the comparison tolerance (the die did not merge two boundaries that differ by rounding):
            # its ratios are computed exactly from the centre and shape the library holds
            cxe = (F(rr.center.x) - F(rr.shape.w) / 2, F(rr.center.y) - F(rr.shape.h) / 2,
                   F(rr.center.x) + F(rr.shape.w) / 2, F(rr.center.y) + F(rr.shape.h) / 2)
            res.counters['sliver-cells'] += 1
        for m in model:
            rs, exact = shape_rects(m)
            if sliver:
                ove = F(0)
                for r in rs:
                    ox = min(cxe[2], F(r[2])) - max(cxe[0], F(r[0]))
                    oy = min(cxe[3], F(r[3])) - max(cxe[1], F(r[1]))
                    if ox > 0 and oy > 0:
                        ove += ox * oy
                ratio = float(ove / ((cxe[2] - cxe[0]) * (cxe[3] - cxe[1])))
            else:
                ov = sum(overlap_f(c, r) for r in rs)
                ratio = ov / area_c
            if ratio > 1e-9:
                row[m] = ratio
                touches[m] = True
                if ratio < 1 - 1e-9 and model[m]['kind'] != 'fixed':
                    partial = True
            elif ratio > 0:
                opt.add(m)          # positive but below the comparison tolerance: listed with a tiny ratio, or not
            elif not (exact and exact_family):
                # zero overlap, but the shape touches the cell and coordinates are rounded (decimal family or
                # irrational square): a listing with a rounding-sized ratio is accepted as well as none (DESIGN 3.2)
                if any(min(c[2], r[2]) - max(c[0], r[0]) >= -tol and min(c[3], r[3]) - max(c[1], r[1]) >= -tol
                       for r in rs):
                    opt.add(m)
        expected.append(row)
        optional.append(opt)
    for m, md in model.items():
        if md['kind'] == 'fixed':
            touches[m] = True
    if case['zero'] and not all(touches.values()):
        res.case('zero-flag-undefined', nontrivial=False)
        return
    if ambiguous:
        res.counters['ambiguous:rounding-zero'] += 1
        res.case('ambiguous', nontrivial=False)
        return
    # ---- run
    try:
        alloc = create_initial_allocation(die, case['zero'])
    except Exception as e:  # noqa
        res.violation('raises', case, dict(attrs, exc=type(e).__name__), 'an allocation', f'{type(e).__name__}: {e}')
        res.case('raised')
        return

    def bad(clause, exp, obs, **extra):
        res.violation(clause, case, dict(attrs, **extra), exp, obs)

    got = []
    for a in alloc.allocations:
        r = a.rect
        got.append(((r.center.x - r.shape.w / 2, r.center.y - r.shape.h / 2, r.center.x + r.shape.w / 2,
                     r.center.y + r.shape.h / 2), bool(r.fixed), dict(a.alloc), a.depth))

    def find(cell, pool):
        for i, g in enumerate(pool):
            if all(abs(g[0][k] - cell[k]) <= tol for k in range(4)):
                return i
        return None

    pool = list(got)
    # refinable cells
    for c, row, opt in zip(cells, expected, optional):
        i = find(c, pool)
        if i is None:
            bad('cells', f'cell {list(c)} present', 'missing')
            continue
        g = pool.pop(i)
        if g[1]:
            bad('cells', 'refinable cell not flagged fixed', list(c))
        if g[3] != 0:
            bad('cells', 'depth 0', g[3])
        want_keys = set(model) if case['zero'] else set(row)
        if not case['zero']:
            for m in opt:
                if m in g[2] and m not in row and g[2][m] <= 1e-9:
                    want_keys = want_keys | {m}
                    res.counters['ambiguous:touching-listed'] += 1
        if set(g[2]) != want_keys:
            bad('listed', sorted(want_keys), sorted(g[2]), cell=[round(x, 6) for x in c])
            continue
        for m in want_keys:
            if abs(g[2][m] - row.get(m, 0.0)) > 1e-9:
                bad('ratio', row.get(m, 0.0), g[2][m], module_kind=model[m]['kind'])
    # fixed cells
    owners = {}
    for m, md in model.items():
        if md['kind'] == 'fixed':
            for e in md['rects']:
                owners[tuple(float(v) for v in e)] = m
    for c in fcells:
        i = find(c, pool)
        if i is None:
            bad('fixed-cells', f'fixed cell {list(c)} present', 'missing')
            continue
        g = pool.pop(i)
        owner = next((m for e, m in owners.items() if all(abs(e[k] - c[k]) <= tol for k in range(4))), None)
        if not g[1] or g[2] != {owner: 1.0}:
            bad('fixed-cells', {owner: 1.0}, dict(fixed=g[1], alloc=g[2]))
    if pool:
        bad('cells', 'no extra cells', [list(g[0]) for g in pool])
    if len(fcells) != len(owners):
        bad('fixed-cells', f'{len(owners)} fixed cells', len(fcells))
    # module areas
    for m, md in model.items():
        exp_area = sum(row.get(m, 0.0) * (c[2] - c[0]) * (c[3] - c[1]) for c, row in zip(cells, expected))
        if md['kind'] == 'fixed':
            exp_area += sum(float((e[2] - e[0]) * (e[3] - e[1])) for e in md['rects'])
        listed = any(m in g[2] for g in got)
        if exp_area > 1e-9 * scale * scale or (case['zero'] and listed):
            try:
                a = alloc.area(m)
                if abs(a - exp_area) > 1e-9 * scale * scale:
                    bad('module-area', exp_area, a, module_kind=md['kind'])
            except Exception as e:  # noqa
                bad('module-area', exp_area, f'{type(e).__name__}: {e}', module_kind=md['kind'])
    res.case('partial' if partial else 'whole-or-none', nontrivial=partial)


def run_shard(shard, tier, res):
    fam = shard['fam']
    if shard.get('moved'):
        dies = die_descriptions(1)[shard['lo']:shard['hi']]
        for items in dies:
            for ms in module_sets(1):
                if not ms:
                    continue
                for mv in ([1, 0], [0, -1], [2, 1]):
                    reset_frame_state()
                    check_case(dict(fam=fam, die=[[list(r), k] for r, k in items], mods=list(ms), zero=False, move=mv), res)
        res.samples.append(dict(fam=fam, die=[], mods=[len(VARIANTS) - 1], zero=False, move=[1, 0]))
        return
    if shard.get('hist'):
        withrects = [i for i, (n, sp) in enumerate(VARIANTS) if sp['rects']]
        for items in die_descriptions(1)[shard['lo']:shard['hi']]:
            has_fixed = any(k == 'fixed' for _, k in items)
            for ms in [()] + [(i,) for i in withrects]:
                for h in (['assign'] if ms else []) + (['release', 'release+refix'] + (['assign+release'] if ms else []) if has_fixed else []):
                    reset_frame_state()
                    check_case(dict(fam=fam, die=[[list(r), k] for r, k in items], mods=list(ms), zero=False, hist=h), res)
        res.samples.append(dict(fam=fam, die=[[[0, 0, 1, 1], 'fixed']], mods=[withrects[-1]], zero=False, hist='assign+release'))
        return
    if shard.get('unit'):
        vi = {n: i for i, (n, _) in enumerate(VARIANTS)}
        u_ = vi['sqUnit']
        for items in die_descriptions(1)[shard['lo']:shard['hi']]:
            for ms in ((u_,), (u_, vi['softFw']), (u_, vi['softB']), (u_, vi['sq1']), (u_, vi['hardB'])):
                for zero in (False, True):
                    reset_frame_state()
                    check_case(dict(fam=fam, die=[[list(r), k] for r, k in items], mods=list(ms), zero=zero), res)
        res.samples.append(dict(fam=fam, die=[], mods=[u_], zero=False))
        return
    if shard.get('refine'):
        dies = die_descriptions(1)[shard['lo']:shard['hi']]
        pres = [['split', 2.0, 4], ['split', 1.5, 3], ['split', 3.0, 7]]
        for items in dies:
            for pre in pres + ([['grid', 2, 2], ['grid', 3, 2]] if not items else []):
                for ms in module_sets(1):
                    for zero in (False, True):
                        reset_frame_state()
                        check_case(dict(fam=fam, die=[[list(r), k] for r, k in items], mods=list(ms), zero=zero, pre=pre), res)
        res.samples.append(dict(fam=fam, die=[], mods=[1], zero=False, pre=['grid', 2, 2]))
        return
    dies = die_descriptions(2)[shard['lo']:shard['hi']]
    msets = module_sets(shard['nmod'], REDUCED if shard.get('reduced') else None)
    for items in dies:
        variants = [False]
        if sum(1 for _, k in items if k == 'fixed') == 2:
            variants = [False, True]
        for one in variants:
            for ms in msets:
                for zero in (False, True):
                    reset_frame_state()
                    check_case(dict(fam=fam, die=[[list(r), k] for r, k in items], mods=list(ms), zero=zero,
                                    one_fixed_module=one), res)
    res.samples.append(dict(fam=fam, die=[[list(r), k] for r, k in dies[-1]], mods=[0, 7], zero=False))


replay = replay_via(check_case)
