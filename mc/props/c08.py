"""
C08 - Rectilinear shape search admits exactly the k-box single-trunk orthogons.

(a) model-set check: the CNF that the real rect.solve builds for a grid and k boxes (objective made
    vacuous) is captured from the real SATManager; ALL its models projected on the per-box cell variables are
    enumerated by the harness' own DPLL and compared, as a set, with the brute-force set of k-box single-trunk
    orthogons on that grid.
(b) optimisation check: the real rect.solve is called for every occupancy vector over a menu on small grids,
    every k and every cost bound between min-1 and max+1 of the objective; 'returns a shape' <=> one exists,
    and the returned rectangles are the boxes of such a shape.
(c) rect_io.get_alloc / select_box reproduce the grid from the allocation document.
"""
from __future__ import annotations

import itertools
import os
import tempfile
from fractions import Fraction as F

from mc import dpll
from mc.common import reset_frame_state, quiet

ID = 'C08'
LEVEL = 'model_checking'
PRELOAD = ['frame.geometry.geometry', 'frame.netlist.netlist', 'frame.die.die', 'frame.allocation.allocation', 'ruamel.yaml', 'mc.common', 'tools.rect.rect', 'tools.rect.rect_io', 'mc.dpll']
RULE = ("grids nx x ny (nx*ny <= 6 quick / <= 9 thorough) with column/row coordinates from 6 families (origin 0 integer, origin 1, fractional size, "
        "non-uniform, decimal 0.1 steps, origin 0.5 with size 2.5, unit pitch at x=1234567, negative origins with and without an inner grid line at exactly 0, grids derived from decimal allocations), k in 1..3: the complete projected model set of the generated CNF vs the brute-force "
        "set of k-box single-trunk orthogons; occupancy vectors over {0, 0.3, 0.7, 1} x every cost bound: the real solve(). "
        "states = models enumerated (each is one admitted shape), transitions = (grid,k) formulas + solve() calls.")
ASSUMPTIONS = ["the grid is a full rectangular grid of cells (the property's 'rectangular grid of cells')",
               "minimum-error mode (ratio 2.0, the tool's default)",
               "the greedy one-box seed (a Windows DLL) is not available; the cost bound is supplied directly"]
BOUNDS = {'quick': 'model sets: all grid shapes with <=6 cells, k<=3, 6 coordinate families; solve(): 2x2 grids all 256 occupancy vectors (k<=2), 3x1/1x3, all bounds',
          'thorough': 'model sets: grids with <=9 cells (3x3: k<=2... k=3 included), solve(): 2x2 (k<=3), 3x2 covering subset'}
MC_NOTE = ("the model is the reference set of k-box single-trunk orthogons; it is bound to the implementation by enumerating every model of the CNF "
           "produced by the real enforce_bb/solve code and comparing the two sets (traces_validated_against_impl = models + reference shapes checked both ways)")
TECHNIQUE = "exhaustive projected model-set enumeration (own DPLL) of the CNF built by the real code, compared with a brute-force reference set; exhaustive sweep of cost bounds through the real solve()"

# coordinate families for grid lines: index -> coordinate
FAMS = {
    'ORG0': lambda i: float(i),
    'ORG1': lambda i: float(i + 1),
    'FRAC': lambda i: i * 1.25,                 # fractional total size (2.5, 3.75)
    'NONUNI': lambda i: [0.0, 1.0, 1.5, 4.0, 4.25][i],
    'DEC1': lambda i: [0.0, 0.1, 0.2, 0.30000000000000004, 0.4][i],   # as an allocation with 0.1 steps yields them
    'HALFORG': lambda i: 0.5 + i * 0.75,
    'FAR': lambda i: 1234567.0 + i,             # unit pitch far from the origin: lines agree in their first six digits
    'FARDEC': lambda i: 2500000.25 + 0.5 * i,
    'NEG': lambda i: -2.5 + i,                  # 'any origin': a grid lying (partly) at negative coordinates
    'FARTHIN': lambda i: 1e8 + [0.0, 1.0, 1.0625, 2.0, 3.0][i],      # a 1/16-wide column at 1e8 (binary exact)
    'NEG0': lambda i: -1.0 + i,                 # ... with an inner grid line at exactly 0.0 (a die centred on the origin)
    'NEG0F': lambda i: -1.5 + 0.75 * i,         # ... the same with fractional pitch (line 0.0 is the third one)
}


def alloc_cells(step, nx, ny):
    """the cells as tools.rect obtains them from an allocation document whose cells are given by centre and size
    with decimal steps (rect_io.get_alloc + select_box): corner = centre -/+ size/2 in floats"""
    cells = []
    for j in range(ny):
        for i in range(nx):
            xc, yc, w, h = float(step * i + step / 2), float(step * j + step / 2), float(step), float(step)
            cells.append((xc - w / 2, yc - h / 2, xc + w / 2, yc + h / 2, (i, j)))
    return cells


ALLOC_STEPS = {'ALLOC01': F(1, 10), 'ALLOC03': F(3, 10), 'ALLOC07': F(7, 10)}


def grid_cells(fam, nx, ny):
    if fam in ALLOC_STEPS:
        return alloc_cells(ALLOC_STEPS[fam], nx, ny)
    f = FAMS[fam]
    cells = []
    for j in range(ny):
        for i in range(nx):
            cells.append((f(i), f(j), f(i + 1), f(j + 1), (i, j)))
    return cells


def reference_shapes(nx, ny, k):
    """all k-tuples of index rectangles: box 0 the trunk, boxes 1.. abut it on one side within its extent, all disjoint"""
    rects = [(i0, j0, i1, j1) for i0 in range(nx) for i1 in range(i0 + 1, nx + 1)
             for j0 in range(ny) for j1 in range(j0 + 1, ny + 1)]

    def abuts(t, r):
        if r[0] == t[2] and t[1] <= r[1] and r[3] <= t[3]:
            return True     # east
        if r[2] == t[0] and t[1] <= r[1] and r[3] <= t[3]:
            return True     # west
        if r[1] == t[3] and t[0] <= r[0] and r[2] <= t[2]:
            return True
        if r[3] == t[1] and t[0] <= r[0] and r[2] <= t[2]:
            return True
        return False

    def disjoint(a, b):
        return a[2] <= b[0] or b[2] <= a[0] or a[3] <= b[1] or b[3] <= a[1]

    out = set()
    for t in rects:
        branches = [r for r in rects if abuts(t, r)]
        for combo in itertools.product(branches, repeat=k - 1):
            if all(disjoint(a, b) for a, b in itertools.combinations(combo, 2)):
                out.add((t,) + combo)
    return out


def cells_of(rect, nx):
    return frozenset(j * nx + i for i in range(rect[0], rect[2]) for j in range(rect[1], rect[3]))


def make_carrier(cells, occ):
    import tools.rect.rect as rect
    c = rect.Carrier.__new__(rect.Carrier)
    c.input_problem = [(x0, y0, x1, y1, float(p)) for (x0, y0, x1, y1, _), p in zip(cells, occ)]
    c.selbox = 'M'
    c.factor = 10000
    c.inibox = (0, 0, 0, 0, 0)
    rect.definecoords(c)
    c.theoreticalBestArea = 0
    for b in c.blocks:
        c.theoreticalBestArea += rect.area(c, b, True)
    return c


def ifile_of(cells):
    xs = [c[0] for c in cells] + [c[2] for c in cells]
    ys = [c[1] for c in cells] + [c[3] for c in cells]
    # what rect_io.get_alloc reports: the size of the bounding box of the allocation
    return {'Width': max(xs) - min(xs), 'Height': max(ys) - min(ys), 'Rectangles': []}


class Captured(Exception):
    pass


def capture_cnf(cells, occ, k, dif):
    """run the real rect.solve up to the point where it calls the SAT solver; return the manager"""
    import tools.rect.rect as rect
    import tools.rect.satmanager as satmanager
    box = {}
    orig = satmanager.SATManager.solve

    def fake(self):
        box['sm'] = self
        return False
    satmanager.SATManager.solve = fake
    try:
        with quiet():
            rect.solve(make_carrier(cells, occ), ifile_of(cells), 2.0, dif, k)
    finally:
        satmanager.SATManager.solve = orig
    return box['sm']


def to_int_cnf(sm):
    names = {}
    cnf = []
    for cl in sm.clauses:
        c = []
        for L in cl:
            v = names.setdefault(L.v, len(names) + 1)
            c.append(v if L.s else -v)
        cnf.append(c)
    return cnf, names


def enumerate_projected(cnf, proj):
    """all assignments of the projection variables that extend to a model (own DPLL: branch on proj vars, unit propagation prunes)"""
    out = []

    def rec(clauses, assign, i):
        r = dpll._simplify(clauses, assign)
        if r is None:
            return
        clauses, assign = r
        while i < len(proj) and proj[i] in assign:
            i += 1
        if i == len(proj):
            if dpll._dpll(clauses, assign) is not None:
                out.append(tuple(bool(assign.get(v, False)) for v in proj))
            return
        for val in (False, True):
            a2 = dict(assign)
            a2[proj[i]] = val
            rec(clauses, a2, i)
    rec([list(c) for c in cnf], {}, 0)
    return out


def check_modelset(case, res):
    fam, nx, ny, k = case['fam'], case['nx'], case['ny'], case['k']
    cells = grid_cells(fam, nx, ny)
    ncell = nx * ny
    attrs = dict(fam=fam, k=k, origin_zero=fam in ('ORG0', 'FRAC', 'NONUNI', 'DEC1'), integral_size=fam in ('ORG0', 'ORG1'), decimal_alloc=fam in ALLOC_STEPS)
    try:
        sm = capture_cnf(cells, [0.5] * ncell, k, (-10 ** 9, 1))
    except Exception as e:  # noqa
        res.violation('build-raises', case, attrs, 'a formula', f'{type(e).__name__}: {e}')
        res.case('raised')
        return
    cnf, names = to_int_cnf(sm)
    proj_names = [f'b{i}_{b}' for i in range(k) for b in range(ncell)]
    missing = [n for n in proj_names if n not in names]
    proj = [names.get(n, 10 ** 6 + j) for j, n in enumerate(proj_names)]
    models = enumerate_projected(cnf, proj)
    got = set()
    for m in models:
        got.add(tuple(frozenset(b for b in range(ncell) if m[i * ncell + b]) for i in range(k)))
    ref = {tuple(cells_of(r, nx) for r in shape) for shape in reference_shapes(nx, ny, k)}
    res.transitions += 1
    res.traces += len(got) + len(ref)
    from mc.engine import h64
    for g in got:
        res.states.add(h64((fam, nx, ny, k, tuple(sorted(map(sorted, g))))))
    spurious = got - ref
    lost = ref - got
    if spurious:
        ex = sorted(sorted(map(sorted, s)) for s in spurious)[0]
        res.violation('spurious-shape', case, attrs, f'{len(ref)} shapes', dict(models=len(got), spurious=len(spurious), example=ex))
    if lost:
        ex = sorted(sorted(map(sorted, s)) for s in lost)[0]
        res.violation('lost-shape', case, attrs, f'{len(ref)} shapes', dict(models=len(got), lost=len(lost), example=ex))
    if missing:
        res.counters['unconstrained-selection-vars'] += len(missing)
    res.case(f'modelset-k{k}', nontrivial=True)


def objective(cells, occ, shape_cells):
    """2*selected - real with the integer truncation of rect.area"""
    tot = 0
    for b in shape_cells:
        x0, y0, x1, y1, _ = cells[b]
        sel = int(10000 * float(occ[b]) * (x1 - x0) * (y1 - y0))
        real = int(10000 * (x1 - x0) * (y1 - y0))
        tot += 2 * sel - real
    return tot


def check_solve(case, res):
    import tools.rect.rect as rect
    fam, nx, ny, k, occ = case['fam'], case['nx'], case['ny'], case['k'], case['occ']
    cells = grid_cells(fam, nx, ny)
    attrs = dict(fam=fam, k=k, origin_zero=fam in ('ORG0', 'FRAC', 'NONUNI', 'DEC1'), integral_size=fam in ('ORG0', 'ORG1'), decimal_alloc=fam in ALLOC_STEPS)
    if not any(p > 0 for p in occ):
        res.case('module-absent', nontrivial=False)     # the module occupies nothing: the tool is not run for it
        return
    ref = reference_shapes(nx, ny, k)
    scored = {}
    for shape in ref:
        sc = frozenset().union(*[cells_of(r, nx) for r in shape])
        scored[shape] = objective(cells, occ, sc)
    best = max(scored.values())
    worst = min(scored.values())
    bounds = sorted({worst - 1, worst, best - 1, best, best + 1, 0, (best + worst) // 2} | set(scored.values()))
    for d in bounds:
        res.transitions += 1
        try:
            with quiet():
                last, rects, q = rect.solve(make_carrier(cells, occ), ifile_of(cells), 2.0, (d, 1), k)
        except Exception as e:  # noqa
            res.violation('solve-raises', case, dict(attrs, d=d), 'a verdict', f'{type(e).__name__}: {e}')
            continue
        exists = best >= d
        if bool(rects) != exists:
            res.violation('solve-iff-exists', dict(case, d=d), attrs, f'shape with objective >= {d} exists: {exists} (best {best})',
                          f'returned {rects}')
            continue
        if rects:
            # the returned rectangles are the boxes of a reference shape meeting the bound
            def to_idx(rc):
                f = FAMS[fam]
                xs = [f(i) for i in range(nx + 1)]
                ys = [f(j) for j in range(ny + 1)]
                try:
                    return (xs.index(rc[0]), ys.index(rc[1]), xs.index(rc[2]), ys.index(rc[3]))
                except ValueError:
                    return None
            shape = tuple(to_idx(rc) for rc in rects)
            if None in shape or shape not in scored:
                res.violation('solve-shape', dict(case, d=d), attrs, 'the boxes of a k-box single-trunk orthogon', list(rects))
            elif scored[shape] < d or last != (scored[shape] + 1, 1):
                res.violation('solve-objective', dict(case, d=d), attrs, f'objective >= {d}, reported cost = objective + 1',
                              dict(objective=scored[shape], reported=last))
        res.traces += 1
    res.case('solve', nontrivial=(best > worst))


def check_io(case, res):
    """an allocation document of the grid -> get_alloc -> select_box reproduces the cells and occupancies"""
    import tools.rect.rect_io as rio
    fam, nx, ny, occ = case['fam'], case['nx'], case['ny'], case['occ']
    cells = grid_cells(fam, nx, ny)
    doc = []
    for (x0, y0, x1, y1, _), p in zip(cells, occ):
        # the selected module is 'M1'; the other occupants have names that contain it ('M10', 'XM1')
        mp = {'M10': 0.5, 'XM1': 0.5} if p <= 0 else {'M1': p} if p >= 1 else \
            {'M1': p, 'M10': round((1 - p) / 2, 6), 'XM1': round((1 - p) / 4, 6)}
        doc.append([[(x0 + x1) / 2, (y0 + y1) / 2, x1 - x0, y1 - y0], mp])
    from ruamel.yaml import YAML
    d = tempfile.mkdtemp(prefix='c08.')
    path = os.path.join(d, 'alloc.yaml')
    try:
        with open(path, 'w') as f:
            YAML().dump(doc, f)
        ifile = rio.get_alloc(path)
        ip, name = rio.select_box('M1', ifile)
    except Exception as e:  # noqa
        res.violation('io-raises', case, dict(fam=fam), 'grid reproduced', f'{type(e).__name__}: {e}')
        return
    finally:
        for fn in os.listdir(d):
            os.unlink(os.path.join(d, fn))
        os.rmdir(d)
    tol = 1e-9 * max(c[2] for c in cells)
    if len(ip) != len(cells) or any(abs(a[k] - b[k]) > tol for a, b in zip(ip, cells) for k in range(4)) or \
            any(abs(a[4] - p) > 1e-12 for a, p in zip(ip, occ)):
        res.violation('io-grid', case, dict(fam=fam), [c[:4] for c in cells], ip)
    xs = [c[0] for c in cells] + [c[2] for c in cells]
    if abs(ifile['Width'] - (max(xs) - min(xs))) > tol:
        res.violation('io-grid', case, dict(fam=fam), max(xs) - min(xs), ifile['Width'])
    res.case('io', nontrivial=any(0 < p < 1 for p in occ))


def check_case(case, res):
    reset_frame_state()
    kind = case['kind']
    if kind == 'modelset':
        check_modelset(case, res)
    elif kind == 'solve':
        check_solve(case, res)
    else:
        check_io(case, res)


GRIDS_Q = [(1, 1), (2, 1), (1, 2), (3, 1), (1, 3), (2, 2), (3, 2), (2, 3), (4, 1), (1, 4)]
GRIDS_T = GRIDS_Q + [(3, 3), (4, 2), (2, 4)]
OCC = [0.0, 0.3, 0.7, 1.0]


def shards(tier):
    out = []
    grids = GRIDS_Q if tier == 'quick' else GRIDS_T
    for fam in list(FAMS) + list(ALLOC_STEPS):
        for (nx, ny) in grids:
            for k in (1, 2, 3):
                if nx * ny >= 9 and k == 3 and tier == 'quick':
                    continue
                out.append(dict(kind='modelset', fam=fam, nx=nx, ny=ny, k=k))
    for fam in ('ORG0', 'HALFORG', 'ORG1', 'FRAC', 'FAR', 'NEG', 'NEG0'):
        for first in OCC:
            for second in OCC:
                out.append(dict(kind='solve22', fam=fam, first=first, second=second))
        out.append(dict(kind='solve31', fam=fam))
        if not fam.startswith('NEG'):        # allocation documents are restricted to the positive quadrant (library-wide precondition)
            out.append(dict(kind='io', fam=fam))
    if tier == 'thorough':
        for fam in ('ORG0', 'HALFORG'):
            for first in OCC:
                out.append(dict(kind='solve32', fam=fam, first=first))
    return out


def run_shard(shard, tier, res):
    kind = shard['kind']
    if kind == 'modelset':
        check_case(shard, res)
        res.samples.append(shard)
    elif kind == 'solve22':
        ks = (1, 2) if tier == 'quick' else (1, 2, 3)
        for o3, o4 in itertools.product(OCC, repeat=2):
            occ = [shard['first'], shard['second'], o3, o4]
            for k in ks:
                check_case(dict(kind='solve', fam=shard['fam'], nx=2, ny=2, k=k, occ=occ), res)
        res.samples.append(dict(kind='solve', fam=shard['fam'], nx=2, ny=2, k=2, occ=[shard['first'], shard['second'], 0.7, 0.3]))
    elif kind == 'solve31':
        for occ in itertools.product(OCC, repeat=3):
            for (nx, ny) in ((3, 1), (1, 3)):
                for k in (1, 2, 3):
                    check_case(dict(kind='solve', fam=shard['fam'], nx=nx, ny=ny, k=k, occ=list(occ)), res)
    elif kind == 'solve32':
        for rest in itertools.product((0.0, 0.7, 1.0), repeat=5):
            occ = [shard['first']] + list(rest)
            for k in (2, 3):
                check_case(dict(kind='solve', fam=shard['fam'], nx=3, ny=2, k=k, occ=occ), res)
    else:
        for (nx, ny) in GRIDS_Q:
            for occ0 in OCC:
                occ = [occ0 if (i % 2 == 0) else 0.7 for i in range(nx * ny)]
                check_case(dict(kind='io', fam=shard['fam'], nx=nx, ny=ny, occ=occ), res)
    res.evaluations = max(res.evaluations, 1)


def replay(case):
    from mc.engine import ShardResult
    res = ShardResult()
    d = case.pop('d', None) if isinstance(case, dict) else None
    check_case(case, res)
    return res.violations
