"""
C16 - Pseudo-Boolean expression algebra preserves integer semantics.

Explicit-state BFS over the real Expr/Term/Literal/Ineq operators.  A state is the canonical form
(c, ordered terms) of a reached Expr; next to every state the explorer carries the *reference
model* of the expression: its value under each of the 4 assignments of {x, y}, computed with plain
integer arithmetic from how it was built.  Every transition applies one real operator to a real
object and compares the result with the reference model (value table, normal-form invariants,
operands unchanged).  Comparisons (Ineq) are checked on every reached state x operand x operator.
"""
from __future__ import annotations

import itertools

from mc.common import reset_frame_state
from mc.engine import h64

ID = 'C16'
LEVEL = 'model_checking'
PRELOAD = ['frame.geometry.geometry', 'frame.netlist.netlist', 'frame.die.die', 'frame.allocation.allocation', 'ruamel.yaml', 'mc.common', 'tools.rect.pseudobool']
RULE = ("BFS over expressions on variables {x,y}: initial states Expr()+t1+t2+c (all polarities, coefficients "
        "-2..3, both variable orders), transitions E+o, E-o, o+E (o: literal, term, int, str, Expr), E*k, k*E "
        "(k in -2..3) and the Literal/Term overloads; states merged on the ordered normal form; comparisons on "
        "every reached state. Non-trivial = distinct canonical states reached (every one carries >=1 checked transition).")
ASSUMPTIONS = ["two variables suffice to reach every branch of the merge logic (same variable same polarity, same variable "
               "opposite polarity, new variable); integer operands only (the API's float branch truncates and is not part "
               "of the statement)"]
BOUNDS = {'quick': 'depth 2 from 3-term initial states (i.e. up to 5 operators from Expr()); Ineq on levels 0-1',
          'thorough': 'depth 3 from the initial states; Ineq on levels 0-2'}
MC_NOTE = ("the exploration runs on the implementation itself; 'traces_validated_against_impl' counts the operator "
           "applications whose result was compared with the reference value table (all transitions + all comparisons)")

ASSIGN = [(0, 0), (0, 1), (1, 0), (1, 1)]     # (x, y)
COEFS = [-2, -1, 0, 1, 2, 3]
NSLICES = 32


def pb():
    import tools.rect.pseudobool as m
    return m


# ---------------------------------------------------------------- reference model
def lit_table(var, sign):
    i = 0 if var == 'x' else 1
    return tuple((a[i] if sign else 1 - a[i]) for a in ASSIGN)


def t_add(a, b):
    return tuple(p + q for p, q in zip(a, b))


def t_sub(a, b):
    return tuple(p - q for p, q in zip(a, b))


def t_scale(a, k):
    return tuple(p * k for p in a)


def t_const(c):
    return (c,) * 4


# ---------------------------------------------------------------- canonical form / evaluation of real objects
def canon(e):
    return (e.c, tuple((k, t.L.v, t.L.s, t.c) for k, t in e.t.items()))


def eval_expr(e):
    out = []
    for a in ASSIGN:
        s = e.c
        for k, t in e.t.items():
            v = a[0] if t.L.v == 'x' else a[1]
            if not t.L.s:
                v = 1 - v
            s += t.c * v
        out.append(s)
    return tuple(out)


def normal_form_ok(e):
    seen = set()
    for k, t in e.t.items():
        if k != t.L.v or t.L.v in seen or not isinstance(t.c, int) or t.c <= 0:
            return False
        seen.add(t.L.v)
    return isinstance(e.c, int)


def snap_operand(o):
    """value snapshot of a Literal / Term / Expr operand (None for ints and strings)"""
    m = pb()
    if isinstance(o, m.Literal):
        return ('L', o.v, o.s)
    if isinstance(o, m.Term):
        return ('T', o.L.v, o.L.s, o.c)
    if isinstance(o, m.Expr):
        return ('E', canon(o))
    return None


def rebuild(cn):
    """Fresh real Expr from a canonical form (through the public constructor)."""
    m = pb()
    d = {}
    for (k, v, s, c) in cn[1]:
        d[k] = m.Term(m.Literal(v, s), c)
    return m.Expr(cn[0], d)


# ---------------------------------------------------------------- operand alphabet
def operands():
    """(description, constructor, table) simplest first"""
    m = pb()
    ops = []
    for c in COEFS:
        ops.append((('int', c), (lambda c=c: c), t_const(c)))
    for v in 'xy':
        ops.append((('str', v), (lambda v=v: v), lit_table(v, True)))
        for s in (True, False):
            ops.append((('lit', v, s), (lambda v=v, s=s: m.Literal(v, s)), lit_table(v, s)))
            for c in COEFS:
                ops.append((('term', v, s, c), (lambda v=v, s=s, c=c: m.Term(m.Literal(v, s), c)),
                            t_scale(lit_table(v, s), c)))
    return ops


def describe(d):
    return list(d)


def initial_states():
    """Expr() + t1 + t2 + c built with the real operators, each step checked by the caller."""
    inits = []
    for (v1, v2) in (('x', 'y'), ('y', 'x'), ('x', 'x')):
        for s1, s2 in itertools.product((True, False), repeat=2):
            for c1, c2 in itertools.product(COEFS, repeat=2):
                for c0 in (-1, 0, 2):
                    inits.append((v1, s1, c1, v2, s2, c2, c0))
    return inits


class Explorer:
    def __init__(self, res):
        self.res = res
        self.m = pb()
        self.ops = operands()

    def check(self, result, table, how, operands_before=()):
        """compare a real result with the reference model; returns canonical form or None"""
        res = self.res
        m = self.m
        res.transitions += 1
        res.traces += 1
        case = dict(build=how)
        if not isinstance(result, m.Expr):
            res.violation('result-type', case, dict(op=how[-1][0]), 'Expr', type(result).__name__)
            return None
        ok = True
        if not normal_form_ok(result):
            res.violation('normal-form', case, dict(op=how[-1][0]), 'positive coefficients, each variable once',
                          repr(canon(result)))
            ok = False
        val = eval_expr(result)
        if val != table:
            res.violation('value', case, dict(op=how[-1][0]), list(table), list(val),
                          note=f'result {canon(result)}')
            ok = False
        for (obj, before) in operands_before:
            now = canon(obj) if isinstance(obj, m.Expr) and not (isinstance(before, tuple) and before[:1] == ('E',)) \
                else snap_operand(obj)
            if now != before:
                res.violation('operand-mutated', case, dict(op=how[-1][0]), repr(before), repr(now))
                ok = False
        return canon(result) if ok else None

    def build_initial(self, spec):
        m = self.m
        (v1, s1, c1, v2, s2, c2, c0) = spec
        e = m.Expr()
        tab = t_const(0)
        how = [('Expr()',)]
        for (v, s, c) in ((v1, s1, c1), (v2, s2, c2)):
            e = e + m.Term(m.Literal(v, s), c)
            tab = t_add(tab, t_scale(lit_table(v, s), c))
            how = how + [('+', 'term', v, s, c)]
            if self.check(e, tab, how) is None:
                return None
        e = e + c0
        tab = t_add(tab, t_const(c0))
        how = how + [('+', 'int', c0)]
        cn = self.check(e, tab, how)
        if cn is None:
            return None
        return cn, tab, how

    def successors(self, cn, tab, how, exprs):
        """yield (canon', table', how') for every operator applied to the state cn"""
        m = self.m
        for (d, mk, otab) in self.ops:
            for opname in ('+', '-', 'r+'):
                E = rebuild(cn)
                o = mk()
                osnap = snap_operand(o)
                if opname == '+':
                    r = E + o
                    t = t_add(tab, otab)
                elif opname == '-':
                    r = E - o
                    t = t_sub(tab, otab)
                else:
                    if d[0] in ('int', 'str'):
                        continue        # int + Expr / str + Expr are not defined by the API (no __radd__ on Expr)
                    r = o + E
                    t = t_add(tab, otab)
                h2 = how + [(opname,) + d]
                c2 = self.check(r, t, h2, [(E, cn)] + ([(o, osnap)] if osnap else []))
                if c2 is not None:
                    yield c2, t, h2
        for k in COEFS:
            for opname in ('*', 'r*'):
                E = rebuild(cn)
                r = E * k if opname == '*' else k * E
                t = t_scale(tab, k)
                h2 = how + [(opname, k)]
                c2 = self.check(r, t, h2, [(E, cn)])
                if c2 is not None:
                    yield c2, t, h2
        for (cn2, tab2) in exprs:
            for opname in ('+', '-'):
                E, E2 = rebuild(cn), rebuild(cn2)
                r = E + E2 if opname == '+' else E - E2
                t = t_add(tab, tab2) if opname == '+' else t_sub(tab, tab2)
                h2 = how + [(opname, 'expr', list(cn2[1]), cn2[0])]
                c2 = self.check(r, t, h2, [(E, cn), (E2, cn2)])
                if c2 is not None:
                    yield c2, t, h2

    # ------------------------------------------------------------ Literal / Term overloads
    def overloads(self):
        m = self.m
        res = self.res
        lits = [(v, s) for v in 'xy' for s in (True, False)]
        for (v, s) in lits:
            L = m.Literal(v, s)
            ltab = lit_table(v, s)
            n = -L
            if not (isinstance(n, m.Literal) and n.v == v and n.s == (not s)):
                res.violation('neg-literal', dict(lit=[v, s]), {}, [v, not s], [n.v, n.s])
            res.transitions += 1
            for c in COEFS:
                for t_ in (L * c, c * L):
                    res.transitions += 1
                    if not (isinstance(t_, m.Term) and t_.L.v == v and t_.L.s == s and t_.c == c):
                        res.violation('lit-times-int', dict(lit=[v, s], c=c), {}, c, getattr(t_, 'c', None))
                T = m.Term(L, c)
                nt = -T
                res.transitions += 1
                if not (nt.L.v == v and nt.L.s == s and nt.c == -c):
                    res.violation('neg-term', dict(lit=[v, s], c=c), {}, -c, nt.c)
                for k in COEFS:
                    for tk in (T * k, k * T):
                        res.transitions += 1
                        if not (tk.L.v == v and tk.L.s == s and tk.c == c * k):
                            res.violation('term-times-int', dict(lit=[v, s], c=c, k=k), {}, c * k, tk.c)
            # the same object used twice in one expression (aliasing must not matter)
            for c in COEFS:
                T = m.Term(m.Literal(v, s), c)
                ts = snap_operand(T)
                self.check(T + T, t_scale(ltab, 2 * c), [('term', v, s, c), ('+', 'term', v, s, c)], [(T, ts)])
                e1 = m.Expr() + T
                self.check(e1, t_scale(ltab, c), [('Expr()',), ('+', 'term', v, s, c)], [(T, ts)])
                e2 = m.Expr() + T
                self.check(e2, t_scale(ltab, c), [('Expr()',), ('+', 'term', v, s, c)], [(T, ts)])
                self.check(e1 + T - T + T, t_scale(ltab, 2 * c), [('Expr()',), ('+', 'term', v, s, c),
                                                                  ('+', 'term', v, s, c)], [(T, ts)])
            L2 = m.Literal(v, s)
            self.check(L2 + L2, t_scale(ltab, 2), [('lit', v, s), ('+', 'lit', v, s)], [(L2, ('L', v, s))])
            for (d, mk, otab) in self.ops:
                # Literal + o, o + Literal
                self.check(m.Literal(v, s) + mk(), t_add(ltab, otab), [('lit', v, s), ('+',) + d])
                if d[0] in ('int',):
                    self.check(mk() + m.Literal(v, s), t_add(ltab, otab), [('lit', v, s), ('r+',) + d])
                for c in COEFS:
                    ttab = t_scale(ltab, c)
                    self.check(m.Term(m.Literal(v, s), c) + mk(), t_add(ttab, otab), [('term', v, s, c), ('+',) + d])
                    if d[0] in ('int',):
                        self.check(mk() + m.Term(m.Literal(v, s), c), t_add(ttab, otab),
                                   [('term', v, s, c), ('r+',) + d])

    # ------------------------------------------------------------ comparisons
    def comparisons(self, cn, tab, how, exprs):
        m = self.m
        res = self.res
        cmpops = {'>=': lambda a, b: a >= b, '<=': lambda a, b: a <= b, '>': lambda a, b: a > b,
                  '<': lambda a, b: a < b, '=': lambda a, b: a == b}
        rhs_list = [(d, mk, otab) for (d, mk, otab) in self.ops]
        rhs_list.append((('expr', [], 0), (lambda: self.m.Expr()), t_const(0)))
        rhs_list += [(('expr', list(c2[1]), c2[0]), (lambda c2=c2: rebuild(c2)), t2) for (c2, t2) in exprs]
        for (d, mk, otab) in rhs_list:
            for op, fn in cmpops.items():
                E = rebuild(cn)
                o = mk()
                osnap = snap_operand(o)
                if op == '>=':
                    q = E >= o
                elif op == '<=':
                    q = E <= o
                elif op == '>':
                    q = E > o
                elif op == '<':
                    q = E < o
                else:
                    q = (E == o)
                res.transitions += 1
                res.traces += 1
                self.check_ineq(q, tab, otab, op, fn, dict(build=how + [(op,) + tuple(d)]))
                # building a comparison must leave both sides as they were (they may be used again)
                if canon(E) != cn or (osnap is not None and snap_operand(o) != osnap):
                    res.violation('operand-mutated', dict(build=how + [(op,) + tuple(d)]), dict(op=op), repr(cn), repr(canon(E)))

    def check_ineq(self, q, ltab, rtab, op, fn, case):
        m = self.m
        res = self.res
        if not isinstance(q, m.Ineq):
            res.violation('ineq-type', case, dict(op=op), 'Ineq', type(q).__name__)
            return
        if q.op not in ('>=', '>', '='):
            res.violation('ineq-op', case, dict(op=op), '>=, > or =', q.op)
            return
        if q.lhs.c != 0 or not normal_form_ok(q.lhs) or not isinstance(q.rhs, int):
            res.violation('ineq-normal-form', case, dict(op=op), 'lhs without constant, positive coefficients',
                          repr((canon(q.lhs), q.rhs)))
        lv = eval_expr(q.lhs)
        for i in range(4):
            holds = lv[i] >= q.rhs if q.op == '>=' else lv[i] > q.rhs if q.op == '>' else lv[i] == q.rhs
            direct = fn(ltab[i], rtab[i])
            if holds != direct:
                res.violation('ineq-semantics', case, dict(op=op), f'{ltab[i]} {op} {rtab[i]} is {direct}',
                              f'{canon(q.lhs)} {q.op} {q.rhs} is {holds} under (x,y)={ASSIGN[i]}')
                return

    def literal_term_comparisons(self):
        m = self.m
        cmpops = {'>=': lambda a, b: a >= b, '<=': lambda a, b: a <= b, '>': lambda a, b: a > b,
                  '<': lambda a, b: a < b, '=': lambda a, b: a == b}
        for v in 'xy':
            for s in (True, False):
                for c in [None] + COEFS:
                    ltab = lit_table(v, s) if c is None else t_scale(lit_table(v, s), c)
                    for (d, mk, otab) in self.ops:
                        for op, fn in cmpops.items():
                            a = m.Literal(v, s) if c is None else m.Term(m.Literal(v, s), c)
                            o = mk()
                            q = (a >= o) if op == '>=' else (a <= o) if op == '<=' else (a > o) if op == '>' else \
                                (a < o) if op == '<' else (a == o)
                            self.res.transitions += 1
                            self.res.traces += 1
                            self.check_ineq(q, ltab, otab, op, fn,
                                            dict(build=[('lit', v, s) if c is None else ('term', v, s, c),
                                                        (op,) + tuple(d)]))


def level0(ex):
    """all initial states (deduplicated, deterministic order)"""
    seen = {}
    for spec in initial_states():
        r = ex.build_initial(spec)
        if r is None:
            continue
        cn, tab, how = r
        if cn not in seen:
            seen[cn] = (tab, how)
    return seen


def shards(tier):
    return [dict(slice=i, of=NSLICES) for i in range(NSLICES)]


def run_shard(shard, tier, res):
    reset_frame_state()
    ex = Explorer(res)
    depth = 2 if tier == 'quick' else 3
    first = shard['slice'] == 0
    # ---- phase A (replicated in every shard, counted only in shard 0): level 0 and level 1
    cntA = (res.transitions, res.traces)
    s0 = level0(ex)
    small = [(cn, s0[cn][0]) for cn in list(s0)[::7]]      # Expr operands for E +/- E'
    seen = dict(s0)
    level = list(s0.items())
    frontier1 = {}
    for cn, (tab, how) in level:
        for c2, t2, h2 in ex.successors(cn, tab, how, small):
            if c2 not in seen and c2 not in frontier1:
                frontier1[c2] = (t2, h2)
    seen.update(frontier1)
    if first:
        ex.overloads()
        ex.literal_term_comparisons()
        for cn, (tab, how) in level:
            ex.comparisons(cn, tab, how, small[:12])
    else:
        res.transitions, res.traces = cntA          # do not count the replicated prefix twice
    # ---- phase B: this shard's slice of level 1, explored to the depth bound with a local seen-set
    mine = list(frontier1.items())[shard['slice']::shard['of']]
    cur = mine
    for lvl in range(2, depth + 1):
        nxt = {}
        for cn, (tab, how) in cur:
            for c2, t2, h2 in ex.successors(cn, tab, how, small):
                if c2 not in seen and c2 not in nxt:
                    nxt[c2] = (t2, h2)
            if lvl == 2 or tier == 'thorough':
                ex.comparisons(cn, tab, how, small[:6])
        seen.update(nxt)
        cur = list(nxt.items())
    for cn in seen:
        res.states.add(h64(cn))
    mystates = len(mine) + (len(s0) if first else 0)
    res.evaluations += res.transitions
    res.nontrivial += mystates
    res.outcomes['ok-transition'] += res.transitions - res.nviol
    if res.nviol:
        res.outcomes['violating-transition'] += res.nviol
    if mine:
        res.samples.append(dict(state=repr(mine[0][0]), built_by=[list(x) for x in mine[0][1][1]]))


def replay(case):
    """case = dict(build=[steps]) : re-executes the operator sequence on fresh objects"""
    from mc.engine import ShardResult
    res = ShardResult()
    reset_frame_state()
    m = pb()
    steps = case['build']

    def operand(d):
        d = list(d)
        if d[0] == 'int':
            return d[1], t_const(d[1])
        if d[0] == 'str':
            return d[1], lit_table(d[1], True)
        if d[0] == 'lit':
            return m.Literal(d[1], d[2]), lit_table(d[1], d[2])
        if d[0] == 'term':
            return m.Term(m.Literal(d[1], d[2]), d[3]), t_scale(lit_table(d[1], d[2]), d[3])
        if d[0] == 'expr':
            cn = (d[2], tuple(tuple(x) for x in d[1]))
            e = rebuild(cn)
            return e, eval_expr(e)
        raise ValueError(d)

    ex = Explorer(res)
    first = list(steps[0])
    if first[0] == 'Expr()':
        cur, tab = m.Expr(), t_const(0)
    else:
        cur, tab = operand(first)
    cmpops = {'>=': lambda a, b: a >= b, '<=': lambda a, b: a <= b, '>': lambda a, b: a > b,
              '<': lambda a, b: a < b, '=': lambda a, b: a == b}
    hist = [tuple(first)]
    for st in steps[1:]:
        st = list(st)
        op = st[0]
        hist.append(st)
        if op in ('*', 'r*'):
            cur = cur * st[1] if op == '*' else st[1] * cur
            tab = t_scale(tab, st[1])
            ex.check(cur, tab, hist)
        elif op in ('+', '-', 'r+'):
            o, otab = operand(st[1:])
            if op == '+':
                cur, tab = cur + o, t_add(tab, otab)
            elif op == '-':
                cur, tab = cur - o, t_sub(tab, otab)
            else:
                cur, tab = o + cur, t_add(tab, otab)
            ex.check(cur, tab, hist)
        elif op in cmpops:
            o, otab = operand(st[1:])
            q = (cur >= o) if op == '>=' else (cur <= o) if op == '<=' else (cur > o) if op == '>' else \
                (cur < o) if op == '<' else (cur == o)
            ex.check_ineq(q, tab, otab, op, cmpops[op], dict(build=steps))
    return res.violations
