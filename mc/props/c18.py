"""
C18 - Rectangle operations agree with plane geometry.

Enumerated: every ordered pair of the 100 rectangles of a 5x5-point grid, in several coordinate
families (binary exact: exact equality demanded; decimal: 1e-9*scale tolerance and an ambiguity
band at decision boundaries), region/flag variants; every cut coordinate on the grid and in the
1%-neighbourhood; all grid shapes up to 4x4; points on the grid and half grid.
Oracle: exact rational plane geometry (mc.common).
"""
from __future__ import annotations

import itertools
from fractions import Fraction as F

from mc.common import (FAMILIES, grid_rects, xinter, xarea, xinside, xdisjoint, center_shape,
                       reset_frame_state, replay_via)

ID = 'C18'
LEVEL = 'exploration'
RULE = ("all ordered pairs of the 100 index rectangles of a 5x5-point grid per coordinate family "
        "(INT, HALF, NONUNI exact; DEC1, DEC3, DEC7, DEC1*1000, DEC1/1000 with tolerance), region and "
        "flag variants; single rectangles x all cut coordinates / grid shapes / points. A case is one "
        "(family, rectangle pair) or (family, rectangle) bundle of operations; it is non-trivial when "
        "the two rectangles are not disjoint-and-apart (pairs) or always (single-rectangle bundles); "
        "cases are distinct by construction of the enumeration.")
ASSUMPTIONS = ["non-negative quadrant (library-wide precondition; -1 is the 'halve' sentinel of the split methods)",
               "decimal families: results within 1e-9*scale of the exact value; predicates are compared only when "
               "the exact quantity is not on the decision boundary (counted as 'ambiguous')",
               "distance tolerance set as a die of that size would set it (1e-11*scale)"]
BOUNDS = {'quick': 'ratios 0, 0.001, 0.01, 0.1, 0.3 for cuttability; touching under two tolerances set in a row; 5x5-point grid, 8 families, all ordered pairs (10 000 per family), cuts/grids/points per rectangle',
          'thorough': 'same plus 6x6-point grid (225 rectangles, 50 625 ordered pairs) for all 8 families and 7x7-point grid '
                      '(441 rectangles, 194 481 ordered pairs) for 4 families and 8x8-point grid (784 rectangles, 614 656 ordered pairs) for 2 families'}

N = 4  # cells per axis -> 5 points

# name -> (index->Fraction, exact?, scale)
FAMS = {
    'INT': (FAMILIES['INT'], True, 4),
    'HALF': (FAMILIES['HALF'], True, 2),
    'NONUNI': (FAMILIES['NONUNI'], True, 5),
    'DEC1': (FAMILIES['DEC1'], False, 1),
    'DEC3': (FAMILIES['DEC3'], False, 2),
    'DEC7': (FAMILIES['DEC7'], False, 3),
    'DEC1K': (lambda i: F(i * 1000, 10) + F(1, 10), False, 500),     # ~100 per step, offset 0.1
    'DEC1m': (lambda i: F(i, 10000), False, F(1, 1000)),              # 1e-4 per step
}


def shards(tier):
    out = []
    for fam in FAMS:
        out.append(dict(kind='pairs', fam=fam, n=N))
        out.append(dict(kind='single', fam=fam, n=N))
    if tier == 'thorough':
        for fam in FAMS:
            for part in range(4):
                out.append(dict(kind='pairs', fam=fam, n=5, part=part, parts=4))
            out.append(dict(kind='single', fam=fam, n=5))
        for fam in ('HALF', 'DEC1', 'DEC7', 'NONUNI'):
            for part in range(12):
                out.append(dict(kind='pairs', fam=fam, n=6, part=part, parts=12))
            out.append(dict(kind='single', fam=fam, n=6))
        for fam in ('HALF', 'DEC1'):
            for part in range(32):
                out.append(dict(kind='pairs', fam=fam, n=7, part=part, parts=32))
            out.append(dict(kind='single', fam=fam, n=7))
    return out


def mk(fam, r, region='_', fixed=False, hard=False):
    from frame.geometry.geometry import Rectangle, Point, Shape
    f = FAMS[fam][0]
    ex = (f(r[0]), f(r[1]), f(r[2]), f(r[3]))
    cx, cy, w, h = center_shape(ex)
    R = Rectangle(center=Point(float(cx), float(cy)), shape=Shape(float(w), float(h)),
                  region=region, fixed=fixed, hard=hard)
    return R, ex


def tol_of(fam, dim=1):
    _, exact, scale = FAMS[fam]
    if exact:
        return 0.0
    return 1e-9 * float(scale) ** dim


def eq(val, exact, tol):
    if tol == 0.0:
        return F(val) == exact
    return abs(val - float(exact)) <= tol


def bb_tuple(R):
    bb = R.bounding_box
    return (bb.ll.x, bb.ll.y, bb.ur.x, bb.ur.y)


def rect_eq(R, ex, tol):
    """FRAME rectangle R equals the exact rectangle ex (centre, shape and bounding box)."""
    cx, cy, w, h = center_shape(ex)
    bb = bb_tuple(R)
    return eq(R.center.x, cx, tol) and eq(R.center.y, cy, tol) and eq(R.shape.w, w, tol) and \
        eq(R.shape.h, h, tol) and all(eq(bb[k], ex[k], tol) for k in range(4))


def check_case(case, res):
    from frame.geometry.geometry import Rectangle
    fam = case['fam']
    _, exact, scale = FAMS[fam]
    Rectangle.set_epsilon(1e-11 * float(scale))
    if case['kind'] == 'pair':
        check_pair(case, res)
    else:
        check_single(case, res)


def check_pair(case, res):
    from frame.geometry.geometry import Rectangle, Point
    fam, ra, rb = case['fam'], tuple(case['a']), tuple(case['b'])
    _, exact, scale = FAMS[fam]
    t1, t2 = tol_of(fam, 1), tol_of(fam, 2)
    A, ea = mk(fam, ra)
    B, eb = mk(fam, rb)
    inter = xinter(ea, eb)
    common = xarea(inter) if inter else F(0)
    attrs = dict(fam=fam, exact=exact)

    def bad(clause, exp, obs, **extra):
        res.violation(clause, case, dict(attrs, **extra), exp, obs)

    # ---- area of overlap: value and symmetry
    ab, ba = A.area_overlap(B), B.area_overlap(A)
    if not eq(ab, common, t2):
        bad('area_overlap-value', str(common), ab)
    if ab != ba:
        bad('area_overlap-symmetry', ab, ba)
    # ---- overlap() predicate (area tolerance): decided when the common area is 0 or clearly positive
    a_eps = Rectangle.area_epsilon()
    if common == 0 or float(common) > 100 * a_eps:
        if A.overlap(B) != (common > 0) or B.overlap(A) != (common > 0):
            bad('overlap-predicate', common > 0, (A.overlap(B), B.overlap(A)))
    else:
        res.counters['ambiguous:overlap-predicate'] += 1
    # ---- intersection rectangle: same region -> exists iff common area > 0; lies inside both; area = common
    for (X, Y, tag) in ((A, B, 'ab'), (B, A, 'ba')):
        I = X * Y
        touching_only = (common == 0)
        if exact or not touching_only or _apart(ea, eb):
            if (I is not None) != (common > 0):
                bad('intersection-existence', common > 0, repr(I), order=tag)
        else:
            res.counters['ambiguous:intersection-existence'] += 1
            if I is not None and I.area > t2:
                bad('intersection-existence', 'None or a sliver', repr(I), order=tag)
        if I is not None and common > 0:
            if not rect_eq(I, inter, t1):
                bad('intersection-value', [str(v) for v in inter], repr(I), order=tag)
            # inside both operands (with tolerance)
            ib = bb_tuple(I)
            for (Z, ez) in ((A, ea), (B, eb)):
                zb = bb_tuple(Z)
                if not (ib[0] >= zb[0] - t1 and ib[1] >= zb[1] - t1 and ib[2] <= zb[2] + t1 and ib[3] <= zb[3] + t1):
                    bad('intersection-inside', 'inside both operands', repr(I), order=tag)
            if I.region != X.region or I.fixed != X.fixed or I.hard != X.hard:
                bad('intersection-attributes', (X.region, X.fixed, X.hard), (I.region, I.fixed, I.hard))
    # the ground region given implicitly (no region argument) and explicitly ('_', as duplicate() and the die do) is the same region
    from frame.geometry.geometry import Rectangle as _R, Shape as _S
    A0 = _R(center=Point(A.center.x, A.center.y), shape=_S(A.shape.w, A.shape.h))
    for (X, Y, tag) in ((A0, B, 'implicit*explicit'), (B, A0, 'explicit*implicit'), (A0.duplicate(), A0, 'copy*implicit')):
        I0 = X * Y
        Iref = (A * B) if tag != 'copy*implicit' else (A * A)
        if (I0 is None) != (Iref is None) or (I0 is not None and bb_tuple(I0) != bb_tuple(Iref)):
            bad('intersection-ground-spelling', repr(Iref), repr(I0), order=tag)
    # different regions: never an intersection, but the common area and the overlap predicate are plain geometry
    A2, _ = mk(fam, ra, region='dsp')
    if (A2 * B) is not None or (B * A2) is not None:
        bad('intersection-regions', None, 'a rectangle for operands of different regions')
    ab2, ba2 = A2.area_overlap(B), B.area_overlap(A2)
    if not eq(ab2, common, t2) or ab2 != ba2:
        bad('area_overlap-value', str(common), (ab2, ba2), regions='different')
    if (common == 0 or float(common) > 100 * a_eps) and (A2.overlap(B) != (common > 0) or B.overlap(A2) != (common > 0)):
        bad('overlap-predicate', common > 0, (A2.overlap(B), B.overlap(A2)), regions='different')
    # same non-ground regions, flags: behaves as same region.  The two names are equal strings that are distinct
    # objects (as names read from two YAML scalars are): regions match by value, not by identity
    A3, _ = mk(fam, ra, region=_runtime_name('dsp'), fixed=True, hard=True)
    B3, _ = mk(fam, rb, region=_runtime_name('dsp'))
    if A3.region != 'dsp' or not A3.fixed or not A3.hard or B3.region != 'dsp':
        bad('constructor-attributes', ('dsp', True, True), (A3.region, A3.fixed, A3.hard, B3.region))
        return
    I3 = A3 * B3
    if (exact or common > 0 or _apart(ea, eb)) and (I3 is not None) != (common > 0):
        bad('intersection-existence', common > 0, repr(I3), order='dsp')
    if I3 is not None and (I3.region != 'dsp' or not I3.fixed or not I3.hard):
        bad('intersection-attributes', ('dsp', True, True), (I3.region, I3.fixed, I3.hard))
    # ---- containment
    exp_in = xinside(ea, eb)
    strict_or_exact = exact or _contain_decided(ea, eb)
    if strict_or_exact:
        if A.is_inside(B) != exp_in:
            bad('is_inside', exp_in, A.is_inside(B))
    else:
        res.counters['ambiguous:is_inside'] += 1
    # ---- touching (closed rectangles meet, within the distance tolerance)
    gapx = max(ea[0], eb[0]) - min(ea[2], eb[2])
    gapy = max(ea[1], eb[1]) - min(ea[3], eb[3])
    exp_touch = gapx <= 0 and gapy <= 0
    if A.touches(B) != exp_touch or B.touches(A) != exp_touch:
        bad('touches', exp_touch, (A.touches(B), B.touches(A)))
    # ---- equality
    if (A == B) != (ea == eb) or (A == A2):
        bad('equality', ea == eb, A == B)
    # ---- point membership of B's corners and centre in A
    for (px, py) in ((eb[0], eb[1]), (eb[2], eb[3]), ((eb[0] + eb[2]) / 2, (eb[1] + eb[3]) / 2), (eb[0], eb[3])):
        exp_p = ea[0] <= px <= ea[2] and ea[1] <= py <= ea[3]
        on_border = px in (ea[0], ea[2]) or py in (ea[1], ea[3])
        if exact or not on_border:
            got = A.point_inside(Point(float(px), float(py)))
            if got != exp_p:
                bad('point_inside', exp_p, got, point=[str(px), str(py)])
        else:
            res.counters['ambiguous:point_inside'] += 1
    # ---- a rectangle that reached A's place from elsewhere answers like a fresh one (differential oracle):
    #      built at B's place and queried there, then moved/resized in place (as Module.recenter_rectangles
    #      does) or through the setters
    from frame.geometry.geometry import Shape
    fresh = (A.area_overlap(B), A.is_inside(B), B.is_inside(A), A.touches(B), repr(A * B), repr(B * A),
             A.point_inside(B.center), bb_tuple(A), A.area)
    for how in ('inplace', 'setter'):
        M, _ = mk(fam, rb)
        _ = (M.bounding_box, M.area, M.area_overlap(B), M.point_inside(B.center))      # queried at the old place
        if how == 'inplace':
            M.center.x += A.center.x - M.center.x
            M.center.y += A.center.y - M.center.y
            M.shape.w, M.shape.h = A.shape.w, A.shape.h
            if (M.center.x, M.center.y) != (A.center.x, A.center.y):    # rounding of the increment: set exactly
                M.center.x, M.center.y = A.center.x, A.center.y
        else:
            M.center = Point(A.center.x, A.center.y)
            M.shape = Shape(A.shape.w, A.shape.h)
        moved = (M.area_overlap(B), M.is_inside(B), B.is_inside(M), M.touches(B), repr(M * B), repr(B * M),
                 M.point_inside(B.center), bb_tuple(M), M.area)
        if moved != fresh:
            bad('moved-rectangle', [str(x) for x in fresh], [str(x) for x in moved], how=how)
    kind = 'disjoint' if common == 0 and not exp_touch else 'touching' if common == 0 else \
        'identical' if ea == eb else 'nested' if (exp_in or xinside(eb, ea)) else 'crossing'
    res.case(kind, nontrivial=(kind != 'disjoint'))


def _runtime_name(s):
    """an equal but distinct (not interned) string object, like a name produced by a parser"""
    return bytes(s, 'ascii').decode('ascii') if len(s) > 1 else s


def _apart(ea, eb):
    """the two closed rectangles do not even touch"""
    return max(ea[0], eb[0]) > min(ea[2], eb[2]) or max(ea[1], eb[1]) > min(ea[3], eb[3])


def _contain_decided(ea, eb):
    """no edge of a coincides with the corresponding edge of b (so float rounding cannot flip containment)"""
    return ea[0] != eb[0] and ea[1] != eb[1] and ea[2] != eb[2] and ea[3] != eb[3]


def pieces_tile(pieces, parent_ex, expected_ex, t1, R):
    """pieces (FRAME rects) equal the expected exact rectangles one by one and carry R's attributes"""
    if len(pieces) != len(expected_ex):
        return f'{len(pieces)} pieces, expected {len(expected_ex)}'
    for P, ex in zip(pieces, expected_ex):
        if not rect_eq(P, ex, t1):
            return f'piece {P!r} is not {[str(v) for v in ex]}'
        if P.region != R.region or P.fixed != R.fixed or P.hard != R.hard:
            return f'piece {P!r} lost attributes'
        if P is R:
            return 'piece is the parent object itself'
    # the expected pieces tile the parent exactly (oracle self-check)
    assert xdisjoint(expected_ex) and sum(xarea(e) for e in expected_ex) == xarea(parent_ex)
    return None


def check_single(case, res):
    fam, r = case['fam'], tuple(case['a'])
    f, exact, scale = FAMS[fam]
    t1, t2 = tol_of(fam, 1), tol_of(fam, 2)
    n = case['n']
    attrs = dict(fam=fam, exact=exact)

    def bad(clause, exp, obs, **extra):
        res.violation(clause, case, dict(attrs, **extra), exp, obs)

    for (region, fixed, hard) in (('_', False, False), ('bram', True, True), ('_', False, True), ('dsp', True, False)):
        R, ex = mk(fam, r, region, fixed, hard)
        x0, y0, x1, y1 = ex
        w, h = x1 - x0, y1 - y0
        # basic measures
        if not eq(R.area, w * h, t2):
            bad('area', str(w * h), R.area)
        exp_ar = max(w / h, h / w)
        if abs(R.aspect_ratio - float(exp_ar)) > 1e-9 * float(exp_ar):
            bad('aspect_ratio', str(exp_ar), R.aspect_ratio)
        if not rect_eq(R, ex, t1):
            bad('bounding_box', [str(v) for v in ex], repr(R.bounding_box))
        if (R.region, bool(R.fixed), bool(R.hard)) != (region, fixed, hard):
            bad('constructor-attributes', (region, fixed, hard), (R.region, R.fixed, R.hard))
        # the same attributes given after construction, through the setters (as Module.is_fixed and the allocation do)
        S, _ = mk(fam, r, region)
        S.fixed, S.hard = fixed, hard
        for P in list(S.split()) + [S.duplicate()]:
            if (P.region, bool(P.fixed), bool(P.hard)) != (region, fixed, hard):
                bad('split-after-setters', (region, fixed, hard), (P.region, P.fixed, P.hard))
                break
        # touching follows the tolerance in force: two tolerances set one after the other (8 times apart, as two designs of
        # slightly different size set them), a rectangle above R at a gap between the two
        from frame.geometry.geometry import Rectangle as _Rc, Point as _Pt, Shape as _Sh
        e1 = _Rc.distance_epsilon()
        if region == '_' and not fixed and e1 > 0:
            gap = 5 * e1
            U = _Rc(center=_Pt(R.center.x, R.center.y + R.shape.h + gap), shape=_Sh(R.shape.w, R.shape.h))
            real_gap = (U.center.y - U.shape.h / 2) - (R.center.y + R.shape.h / 2)
            if 2 * e1 < real_gap < 7 * e1:          # (the gap survived the rounding of the coordinates)
                t_small = R.touches(U)
                _Rc.set_epsilon(8 * e1)
                t_large = R.touches(U)
                _Rc.set_epsilon(e1)
                t_back = R.touches(U)
                if (t_small, t_large, t_back) != (False, True, False):
                    bad('touches-tolerance', (False, True, False), (t_small, t_large, t_back), eps=e1)
        D = R.duplicate()
        if not (D == R and D is not R and D.fixed == fixed and D.hard == hard and D.region == region):
            bad('duplicate', repr(R), repr(D))
        vs = R.vector_spec
        if vs != (R.center.x, R.center.y, R.shape.w, R.shape.h, region):
            bad('vector_spec', 'x,y,w,h,region', vs)
        # ---- cuts at every grid coordinate
        for i in range(n + 1):
            cx = f(i)
            inside = x0 < cx < x1
            if inside and cx > 0:
                try:
                    p = R.split_horizontal(float(cx))
                    msg = pieces_tile(list(p), ex, [(x0, y0, cx, y1), (cx, y0, x1, y1)], t1, R)
                except Exception as e:  # noqa
                    msg = f'raised {type(e).__name__}: {e}'
                if msg:
                    bad('split_horizontal', 'two pieces tiling the rectangle', msg, cut=str(cx))
            cy = f(i)
            inside_y = y0 < cy < y1
            if inside_y and cy > 0:
                try:
                    p = R.split_vertical(float(cy))
                    msg = pieces_tile(list(p), ex, [(x0, y0, x1, cy), (x0, cy, x1, y1)], t1, R)
                except Exception as e:  # noqa
                    msg = f'raised {type(e).__name__}: {e}'
                if msg:
                    bad('split_vertical', 'two pieces tiling the rectangle', msg, cut=str(cy))
        # ---- default halving (only defined for rectangles whose centre is positive: always here)
        mx, my = (x0 + x1) / 2, (y0 + y1) / 2
        for name, fn, expp in (('split_horizontal', R.split_horizontal, [(x0, y0, mx, y1), (mx, y0, x1, y1)]),
                               ('split_vertical', R.split_vertical, [(x0, y0, x1, my), (x0, my, x1, y1)])):
            try:
                msg = pieces_tile(list(fn()), ex, expp, t1, R)
            except Exception as e:  # noqa
                msg = f'raised {type(e).__name__}: {e}'
            if msg:
                bad(name + '-halve', 'two halves', msg)
        # split(): halves the longer side (either for a square)
        try:
            p = list(R.split())
            mh = pieces_tile(p, ex, [(x0, y0, mx, y1), (mx, y0, x1, y1)], t1, R)
            mv = pieces_tile(p, ex, [(x0, y0, x1, my), (x0, my, x1, y1)], t1, R)
            if w > h:
                msg = mh
            elif h > w:
                msg = mv
            else:
                msg = None if (mh is None or mv is None) else mh
        except Exception as e:  # noqa
            msg = f'raised {type(e).__name__}: {e}'
        if msg:
            bad('split', 'halves across the longer side', msg, wider=(w > h), taller=(h > w))
        # ---- grids
        for nr in range(1, 5):
            for nc in range(1, 5):
                expp = [(x0 + w * c / nc, y0 + h * rr / nr, x0 + w * (c + 1) / nc, y0 + h * (rr + 1) / nr)
                        for rr in range(nr) for c in range(nc)]
                try:
                    g = R.rectangle_grid(nr, nc)
                    # order-insensitive comparison
                    g_sorted = sorted(g, key=lambda q: (round(q.center.y / float(scale), 9), round(q.center.x / float(scale), 9)))
                    gt1 = t1 if t1 else 1e-12 * float(scale)   # thirds are not representable even in exact families
                    msg = pieces_tile(g_sorted, ex, expp, gt1, R)
                except Exception as e:  # noqa
                    msg = f'raised {type(e).__name__}: {e}'
                if msg:
                    bad('rectangle_grid', f'{nr}x{nc} equal pieces tiling the rectangle', msg, square=(nr == nc))
        # ---- cuttability
        for ratio in (0.0, 0.001, 0.01, 0.1, 0.3):
            fr = F(ratio).limit_denominator(1000)
            cand_x = {f(i) for i in range(n + 1)}
            cand_y = set(cand_x)
            for k in (F(1, 2), F(9, 10), F(11, 10), F(2), F(5)):
                for side in (w, h):
                    d = fr * side * k
                    cand_x |= {x0 + d, x1 - d}
                    cand_y |= {y0 + d, y1 - d}
            cand_x |= {x0 - F(1, 100), x1 + F(1, 100), mx}
            cand_y |= {y0 - F(1, 100), y1 + F(1, 100), my}
            for axis, cands, lo, hi, fn in (('x', cand_x, x0, x1, R.x_cuttable), ('y', cand_y, y0, y1, R.y_cuttable)):
                for c in sorted(cands):
                    if c < 0:
                        continue
                    got = fn(float(c), ratio)
                    strictly_inside = lo < c < hi
                    m = min(c - lo, hi - c)
                    no_sliver = m > fr * max(w, h)
                    # decision margins for float rounding (ratio itself is a float)
                    near_border = (not exact) and min(abs(c - lo), abs(c - hi)) <= F(1, 10 ** 9) * F(scale)
                    near_thresh = abs(m - fr * max(w, h)) <= F(1, 10 ** 9) * F(scale)
                    if got and not strictly_inside and not near_border:
                        bad(f'{axis}_cuttable-outside', False, got, cut=str(c), ratio=ratio)
                    if no_sliver and not near_thresh and not got:
                        bad(f'{axis}_cuttable-nosliver', True, got, cut=str(c), ratio=ratio)
    res.case('single', nontrivial=True)


def run_shard(shard, tier, res):
    fam, n = shard['fam'], shard['n']
    rects = grid_rects(n)
    if shard['kind'] == 'pairs':
        part, parts = shard.get('part', 0), shard.get('parts', 1)
        for k, (a, b) in enumerate(itertools.product(rects, rects)):
            if k % parts != part:
                continue
            reset_frame_state()
            case = dict(kind='pair', fam=fam, a=list(a), b=list(b), n=n)
            check_case(case, res)
        res.samples.append(dict(kind='pair', fam=fam, a=list(rects[5]), b=list(rects[40])))
    else:
        for a in rects:
            reset_frame_state()
            case = dict(kind='single', fam=fam, a=list(a), n=n)
            check_case(case, res)
        res.samples.append(dict(kind='single', fam=fam, a=list(rects[17]), n=n))


replay = replay_via(check_case)
