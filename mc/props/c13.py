"""
C13 - Force-directed relocation: fixed modules stay, centres stay in the die.

Enumerated: dies x netlists of 2-3 modules (soft small / soft large / terminal with centre / fixed rectangle / fixed
terminal) with centres on the 3x3 lattice of the die (corners, border midpoints, centre: coincident centres and centres
on the border included) x nets x spring constants x iteration counts; force_algorithm on a sub-product.
Oracle: invariants on the returned netlist; determinism by running two identically built inputs; argmin of the
overlap-plus-half-wirelength cost recomputed independently per spring constant.
"""
from __future__ import annotations

import copy
import itertools
import math

from mc.common import reset_frame_state, replay_via

ID = 'C13'
LEVEL = 'exploration'
PRELOAD = ['frame.geometry.geometry', 'frame.netlist.netlist', 'frame.die.die', 'frame.allocation.allocation', 'ruamel.yaml', 'mc.common', 'tools.force.fruchterman_reingold']
RULE = ("dies {4x4, 10.5x2.5} (quick) + {6x3, 1x1, 0.3x0.7}; 2-module netlists: module A in {soft small, soft large, terminal+centre} x 9 lattice centres, module B "
        "the same or fixed rectangle / fixed terminal at 3 places, nets {none, weight 1, weight 2.5}; 3-module netlists on a reduced lattice with a 3-pin net or two "
        "2-pin nets; (kappa, max_iter) in {0.1,0.4,1,1.5,10}x{2} + {1}x{0,1,5,20}; force_algorithm with max_iter in {0,3}. "
        "Non-trivial = layouts in which at least one movable centre actually moved; distinct by construction.")
ASSUMPTIONS = ["fixed centres compared with 1e-9*die size (they are re-derived through a translate/untranslate round trip); fixed rectangles bit-exact",
               "cost readings accepted for the argmin clause: pairwise disc overlap counted once or twice (the library sums ordered pairs), plus half the wire length"]
BOUNDS = {'quick': '2 dies, n=2 complete menus, n=3 reduced', 'thorough': '5 dies, larger n=3 menus, max_iter up to 50'}

LATTICE = [(fx, fy) for fx in (0, 0.5, 1) for fy in (0, 0.5, 1)]
LAT5 = [(0, 0), (0.5, 0.5), (1, 1), (0.5, 0), (1, 0.5)]
FIXPOS = [(0.25, 0.25), (0.5, 0.5), (0.75, 0.25)]
PARAMS_Q = [(0.1, 2), (0.4, 2), (1.0, 2), (1.5, 2), (10.0, 2), (1.0, 0), (1.0, 1), (1.0, 5), (1.0, 20)]


def module_node(kind, pos, W, H):
    x, y = pos[0] * W, pos[1] * H
    if kind == 'soft':
        return {'area': 0.02 * W * H, 'center': [x, y]}
    if kind == 'softr':
        # a movable soft module that owns exactly one rectangle (centred where the module is)
        return {'area': 0.02 * W * H, 'rectangles': [[x if x > 0 else 0.1 * W, y if y > 0 else 0.1 * H, 0.2 * W, 0.1 * H]]}
    if kind == 'big':
        return {'area': 0.5 * W * H, 'center': [x, y]}
    if kind == 'term':
        return {'terminal': True, 'center': [x, y]}
    if kind == 'fixed':
        return {'fixed': True, 'rectangles': [[x, y, W / 8, H / 8]]}
    if kind == 'fterm':
        return {'terminal': True, 'fixed': True, 'center': [x, y]}
    raise ValueError(kind)


def build(case):
    from frame.die.die import Die
    from frame.netlist.netlist import Netlist
    W, H = case['die']
    mods = {}
    for i, (kind, pos) in enumerate(case['mods']):
        mods[f'M{i}'] = module_node(kind, pos, W, H)
    nets = []
    for members, w in case['nets']:
        e = [f'M{i}' for i in members]
        if w != 1:
            e.append(w)
        nets.append(e)
    n = Netlist({'Modules': mods, 'Nets': nets})
    d = Die(f'{W}x{H}', n)
    return d, n


def snapshot(n):
    out = []
    for m in n.modules:
        out.append((m.name, m.is_fixed, m.is_hard, m.is_terminal, m.area(), dict(m.area_regions),
                    tuple((r.center.x, r.center.y, r.shape.w, r.shape.h, r.region, r.fixed) for r in m.rectangles)))
    nets = [(tuple(b.name for b in e.modules), e.weight) for e in n.edges]
    return out, nets


def centres(n):
    return [(None if m.center is None else (m.center.x, m.center.y)) for m in n.modules]


def lens(c1, r1, c2, r2):
    d = math.hypot(c1[0] - c2[0], c1[1] - c2[1])
    if d >= r1 + r2:
        return 0.0
    if d <= abs(r1 - r2):
        return math.pi * min(r1, r2) ** 2
    a = math.acos(max(-1.0, min(1.0, (r1 * r1 + d * d - r2 * r2) / (2 * r1 * d))))
    b = math.acos(max(-1.0, min(1.0, (r2 * r2 + d * d - r1 * r1) / (2 * r2 * d))))
    return r1 * r1 * a + r2 * r2 * b - d * r1 * math.sin(a)


def own_cost(n, pair_weight):
    ms = n.modules
    ov = 0.0
    for a, b in itertools.combinations(ms, 2):
        ov += lens((a.center.x, a.center.y), math.sqrt(a.area() / math.pi), (b.center.x, b.center.y),
                   math.sqrt(b.area() / math.pi))
    wl = 0.0
    for e in n.edges:
        cs = [(m.center.x, m.center.y) for m in e.modules]
        mx = sum(c[0] for c in cs) / len(cs)
        my = sum(c[1] for c in cs) / len(cs)
        wl += e.weight * sum(math.hypot(c[0] - mx, c[1] - my) for c in cs)
    return pair_weight * ov + wl / 2


def check_invariants(case, res, attrs, n_before, cent_before, d, n, W, H):
    tol = 1e-9 * max(W, H)
    ok = True
    snap = snapshot(n)
    if snap != n_before:
        res.violation('only-centres-change', case, attrs, 'modules, areas, rectangles and nets unchanged', 'changed')
        ok = False
    for m, c0 in zip(n.modules, cent_before):
        c = m.center
        if c is None or not (math.isfinite(c.x) and math.isfinite(c.y)):
            res.violation('finite-centre', case, attrs, 'a finite centre', repr(c))
            ok = False
            continue
        if not (-tol <= c.x <= W + tol and -tol <= c.y <= H + tol):
            res.violation('inside-die', case, dict(attrs, module_kind=('fixed' if m.is_fixed else 'movable')), [W, H], [c.x, c.y])
            ok = False
        if m.is_fixed and c0 is not None and (abs(c.x - c0[0]) > tol or abs(c.y - c0[1]) > tol):
            res.violation('fixed-moved', case, attrs, list(c0), [c.x, c.y])
            ok = False
    return ok


def check_case(case, res):
    from tools.force.fruchterman_reingold import fruchterman_reingold_layout, force_algorithm
    if case.get('kind') == 'hashbatch':
        check_hashbatch(case, res)
        return
    W, H = case['die']
    attrs = dict(kinds=sorted({k for k, _ in case['mods']}), algo=case['algo'], max_iter=case['max_iter'])
    reset_frame_state()
    d, n = build(case)
    before, cent_before = snapshot(n), centres(n)
    if all(c is not None for c in cent_before):
        _ = n.wire_length          # a caller may well look at the wire length before relocating
    try:
        if case['algo'] == 'layout':
            out, _ = fruchterman_reingold_layout(d, case['kappa'], max_iter=case['max_iter'])
        else:
            out, _ = force_algorithm(d, max_iter=case['max_iter'])
    except Exception as e:  # noqa
        res.violation('raises', case, attrs, 'a layout', f'{type(e).__name__}: {e}')
        res.case('raised')
        return
    nout = out.netlist
    if nout is None or [m.name for m in nout.modules] != [m.name for m in n.modules]:
        res.violation('only-centres-change', case, attrs, 'the same modules', 'different netlist')
        res.case('done')
        return
    check_invariants(case, res, attrs, before, cent_before, out, nout, W, H)
    got = centres(nout)
    # the returned netlist is consistent with itself: its wire length is the wire length of the new centres
    if all(c is not None for c in got):
        wl_own = own_cost(nout, 0) * 2
        try:
            wl = nout.wire_length
            if abs(wl - wl_own) > 1e-9 * max(1.0, wl_own):
                res.violation('wire-length-stale', case, attrs, wl_own, wl)
        except Exception as e:  # noqa
            res.violation('wire-length-stale', case, attrs, wl_own, f'{type(e).__name__}: {e}')
    # ---- determinism: an identically built input gives bit-identical centres -- also when an unrelated design in other
    #      units (300 times larger: within the factor 1000 of C20) was constructed between building the input and relocating it
    reset_frame_state()
    d2, n2 = build(case)
    from frame.die.die import Die as _Die
    from frame.netlist.netlist import Netlist as _Netlist
    _other = _Netlist({'Modules': {'X': {'area': 900.0 * W * H, 'center': [150.0 * W, 150.0 * H]},
                                   'Y': {'fixed': True, 'rectangles': [[30.0 * W, 30.0 * H, 60.0 * W, 60.0 * H]]}}, 'Nets': [['X', 'Y']]})
    _Die(f'{300 * W}x{300 * H}', _other)
    if case['algo'] == 'layout':
        out2, _ = fruchterman_reingold_layout(d2, case['kappa'], max_iter=case['max_iter'])
    else:
        out2, _ = force_algorithm(d2, max_iter=case['max_iter'])
    if centres(out2.netlist) != got:
        res.violation('deterministic', case, attrs, got, centres(out2.netlist))
    # ---- argmin over the spring constants force_algorithm tries
    if case['algo'] == 'force':
        kappas = [i / 10 for i in range(4, 16)]
        costs = {1: [], 2: []}
        layouts = []
        for k in kappas:
            reset_frame_state()
            dk, nk = build(case)
            ok_, _ = fruchterman_reingold_layout(dk, k, max_iter=case['max_iter'])
            layouts.append(centres(ok_.netlist))
            for pw in (1, 2):
                costs[pw].append(own_cost(ok_.netlist, pw))
        final = {pw: own_cost(nout, pw) for pw in (1, 2)}
        scale = max(W, H)
        good = any(final[pw] <= min(costs[pw]) + 1e-9 * scale * scale for pw in (1, 2))
        if not good:
            res.violation('argmin', case, attrs, dict(min_cost_single=min(costs[1]), min_cost_double=min(costs[2])),
                          dict(final_single=final[1], final_double=final[2]))
        if got not in layouts:
            res.violation('argmin', case, attrs, 'the returned layout is the layout of one of the spring constants 0.4..1.5',
                          got)
    moved = any(c0 != c1 for m, c0, c1 in zip(n.modules, cent_before, got) if not m.is_fixed)
    res.case('moved' if moved else 'static', nontrivial=moved)


def layout_centres(case):
    """the centres the relocation returns for a case (used by the hash-seed runs)"""
    from tools.force.fruchterman_reingold import fruchterman_reingold_layout, force_algorithm
    reset_frame_state()
    d, n = build(case)
    if case['algo'] == 'layout':
        out, _ = fruchterman_reingold_layout(d, case['kappa'], max_iter=case['max_iter'])
    else:
        out, _ = force_algorithm(d, max_iter=case['max_iter'])
    return centres(out.netlist)


HASH_SEEDS = (1, 2, 3)
_HASH_CODE = ("import sys, json; sys.path.insert(0, %r); from mc import engine; engine.bind_repo(%r); "
              "from mc.props import c13; cases = json.load(sys.stdin); "
              "print('RESULT ' + json.dumps([c13.layout_centres(c) for c in cases]))")


def check_hashbatch(case, res):
    """'It is deterministic': the same input relocated in interpreters started with different string-hash seeds (the
    environment's answer to PYTHONHASHSEED; the module objects hash by name) gives bit-identical centres"""
    import json, os, subprocess
    from mc import engine
    repo = engine._BOUND['repo']
    base = [[None if c is None else list(c) for c in layout_centres(c)] for c in case['cases']]
    for seed in HASH_SEEDS:
        env = dict(os.environ, PYTHONHASHSEED=str(seed), PYTHONDONTWRITEBYTECODE='1')
        p = subprocess.run([engine.PY, '-c', _HASH_CODE % (engine.VERIF, repo)], input=json.dumps(case['cases']), capture_output=True,
                           text=True, env=env, timeout=3600)
        line = [l for l in p.stdout.splitlines() if l.startswith('RESULT ')]
        if not line:
            raise RuntimeError(f'C13 hash-seed run produced no result (rc={p.returncode}): {p.stderr[-400:]}')
        got = json.loads(line[-1][7:])
        for sub, b, g in zip(case['cases'], base, got):
            if b != g:
                res.violation('deterministic', dict(kind='hashbatch', cases=[sub]), dict(hash_seed=seed, algo=sub['algo'], max_iter=sub['max_iter']),
                              b, g)
        res.case('hash-seed-run', nontrivial=True)


def cases_hash(W, H):
    """nets of three and four pins, coincident modules of equal area in the same nets (rounding differences are amplified)"""
    out = []
    for pos in ([(0.5, 0.5), (0.5, 0.5), (0.25, 0.75), (1, 0)], [(0, 0), (0, 0), (1, 1), (0.5, 0)], [(0.3, 0.3), (0.3, 0.3), (0.3, 0.3), (0.9, 0.1)]):
        for kinds in (['soft', 'soft', 'soft', 'term'], ['big', 'big', 'soft', 'fterm'], ['soft', 'soft', 'term', 'fixed']):
            for nets in ([[[0, 1, 2], 1], [[0, 1, 3], 2.5]], [[[0, 1, 2, 3], 1]], [[[3, 2, 1, 0], 1], [[0, 2], 2]]):
                for (kappa, it) in ((1.0, 5), (0.4, 20), (1.5, 50)):
                    out.append(dict(die=[W, H], mods=[[k, list(p_) if k != 'fixed' else [0.75, 0.25]] for k, p_ in zip(kinds, pos)], nets=nets, algo='layout', kappa=kappa, max_iter=it))
                out.append(dict(die=[W, H], mods=[[k, list(p_) if k != 'fixed' else [0.75, 0.25]] for k, p_ in zip(kinds, pos)], nets=nets, algo='force', kappa=None, max_iter=5))
    return out


def cases_n2(W, H, params, lattice_a, lattice_b):
    movable = ['soft', 'big', 'term']
    A = [(k, p) for k in movable for p in lattice_a]
    B = [(k, p) for k in movable for p in lattice_b] + [('fixed', p) for p in FIXPOS] + [('fterm', p) for p in FIXPOS]
    for a in A:
        for b in B:
            for nets in ([], [[[0, 1], 1]], [[[0, 1], 2.5]]):
                for (kappa, it) in params:
                    yield dict(die=[W, H], mods=[list(a), list(b)], nets=nets, algo='layout', kappa=kappa, max_iter=it)


def cases_n3(W, H, params):
    movable = ['soft', 'big', 'term']
    A = [(k, p) for k in movable for p in LAT5]
    B = [(k, p) for k in movable for p in LAT5[:3]] + [('fixed', FIXPOS[0]), ('fterm', FIXPOS[2])]
    Cc = [('term', LAT5[2]), ('fixed', FIXPOS[1]), ('soft', LAT5[0]), ('soft', LAT5[1])]
    for a in A:
        for b in B:
            for c in Cc:
                for nets in ([[[0, 1, 2], 1]], [[[0, 1], 2.5], [[1, 2], 1]]):
                    for (kappa, it) in params:
                        yield dict(die=[W, H], mods=[list(a), list(b), list(c)], nets=nets, algo='layout', kappa=kappa,
                                   max_iter=it)


def cases_force(W, H):
    movable = ['soft', 'big', 'term']
    A = [(k, p) for k in movable for p in LAT5]
    B = [(k, p) for k in movable for p in LAT5[:3]] + [('fixed', FIXPOS[0]), ('fterm', FIXPOS[2])]
    for a in A:
        for b in B:
            for nets in ([[[0, 1], 1]], [[[0, 1], 2.5]]):
                for it in (0, 3):
                    yield dict(die=[W, H], mods=[list(a), list(b)], nets=nets, algo='force', kappa=None, max_iter=it)
    for a in A[:6]:
        for b in B[:4]:
            yield dict(die=[W, H], mods=[list(a), list(b), ['soft', [0.5, 0.5]]], nets=[[[0, 1, 2], 1]], algo='force',
                       kappa=None, max_iter=3)
    # a movable module with one rectangle next to soft, big and fixed modules: only its centre may change
    for b in B:
        for pos in ((0.5, 0.5), (0.3, 0.7)):
            for (algo, kappa, it) in (('layout', 1.0, 5), ('layout', 0.4, 20), ('force', None, 3)):
                yield dict(die=[W, H], mods=[['softr', list(pos)], list(b)], nets=[[[0, 1], 2.5]], algo=algo, kappa=kappa, max_iter=it)


def shards(tier):
    dies = [[4, 4], [10.5, 2.5]] if tier == 'quick' else [[4, 4], [10.5, 2.5], [6, 3], [1, 1], [0.3, 0.7]]
    out = []
    # designs written in small and in large units (all costs below 1e-6, resp. above 1e6) for the argmin clause
    for die in ([4e-4, 4e-4], [4e3, 2.5e3]):
        out.append(dict(kind='force', die=die))
    for die in dies:
        for part in range(9):
            out.append(dict(kind='n2', die=die, part=part))
        for part in range(4):
            out.append(dict(kind='n3', die=die, part=part))
        out.append(dict(kind='force', die=die))
        out.append(dict(kind='hash', die=die))
    return out


def run_shard(shard, tier, res):
    W, H = shard['die']
    params = PARAMS_Q if tier == 'quick' else PARAMS_Q + [(0.4, 50), (1.5, 50), (10.0, 20)]
    if shard['kind'] == 'n2':
        gen = cases_n2(W, H, params, [LATTICE[shard['part']]], LATTICE)
    elif shard['kind'] == 'n3':
        gen = (c for i, c in enumerate(cases_n3(W, H, params[:3] + params[5:7])) if i % 4 == shard['part'])
    elif shard['kind'] == 'hash':
        batch = dict(kind='hashbatch', cases=cases_hash(W, H))
        check_case(batch, res)
        res.samples.append(dict(kind='hashbatch', cases=batch['cases'][:2]))
        return
    else:
        gen = cases_force(W, H)
    last = None
    for case in gen:
        check_case(case, res)
        last = case
    if last:
        res.samples.append(last)


replay = replay_via(check_case)
