"""
Fingerprint of all process-wide mutable state of the library under test: every module-level list/dict/set/number/
string/bool of the modules under frame.* and tools.* that is not an upper-case constant, the same for class attributes
of classes defined there, and every mutable default argument of their functions and methods.
"""
from __future__ import annotations

import hashlib
import inspect
import sys
import types

SCALARS = (int, float, str, bool, type(None))
CONTAINERS = (list, dict, set, tuple, frozenset)


def _summ(v, depth=0):
    if isinstance(v, SCALARS):
        return repr(v)
    if isinstance(v, (list, tuple)):
        if depth > 2:
            return f'<{type(v).__name__} len={len(v)}>'
        return '[' + ','.join(_summ(x, depth + 1) for x in v[:2000]) + f']#{len(v)}'
    if isinstance(v, (set, frozenset)):
        return '{' + ','.join(sorted(_summ(x, depth + 1) for x in list(v)[:2000])) + f'}}#{len(v)}'
    if isinstance(v, dict):
        if depth > 2:
            return f'<dict len={len(v)}>'
        items = sorted((_summ(k, depth + 1), _summ(x, depth + 1)) for k, x in list(v.items())[:2000])
        return '{' + ','.join(f'{k}:{x}' for k, x in items) + f'}}#{len(v)}'
    # objects: type name + their scalar attributes
    try:
        d = vars(v)
    except TypeError:
        return f'<{type(v).__name__}>'
    if depth > 1:
        return f'<{type(v).__name__}>'
    return f'<{type(v).__name__} ' + ','.join(f'{k}={_summ(x, depth + 1)}' for k, x in sorted(d.items())
                                            if isinstance(x, SCALARS + CONTAINERS)) + '>'


def fingerprint():
    """-> dict key -> short digest of the value"""
    out = {}
    for name, mod in sorted(sys.modules.items()):
        if mod is None or not (name == 'frame' or name.startswith('frame.') or name == 'tools' or name.startswith('tools.')):
            continue
        for attr, val in sorted(vars(mod).items()):
            if attr.startswith('__'):
                continue
            if isinstance(val, (types.ModuleType, types.BuiltinFunctionType)):
                continue
            if isinstance(val, SCALARS + CONTAINERS) and not isinstance(val, (type,)):
                if attr.isupper() and isinstance(val, SCALARS):
                    continue
                out[f'{name}.{attr}'] = _summ(val)
            elif inspect.isclass(val) and getattr(val, '__module__', None) == name:
                for cattr, cval in sorted(vars(val).items()):
                    if cattr.startswith('__'):
                        continue
                    if isinstance(cval, SCALARS + CONTAINERS) and not (cattr.isupper() and isinstance(cval, SCALARS)):
                        out[f'{name}.{attr}.{cattr}'] = _summ(cval)
                    elif isinstance(cval, (types.FunctionType, staticmethod, classmethod)):
                        fn = cval.__func__ if isinstance(cval, (staticmethod, classmethod)) else cval
                        _defaults(out, f'{name}.{attr}.{cattr}', fn)
            elif isinstance(val, types.FunctionType) and getattr(val, '__module__', None) == name:
                _defaults(out, f'{name}.{attr}', val)
            elif not inspect.isclass(val) and not callable(val) and getattr(type(val), '__module__', '').startswith(('frame', 'tools')):
                out[f'{name}.{attr}'] = _summ(val)        # module-level instances of library classes
    return out


def _defaults(out, key, fn):
    for i, d in enumerate(fn.__defaults__ or ()):
        if isinstance(d, (list, dict, set)) or getattr(type(d), '__module__', '').startswith(('frame', 'tools')):
            out[f'{key}.__defaults__[{i}]'] = _summ(d)
    for k, d in (fn.__kwdefaults__ or {}).items():
        if isinstance(d, (list, dict, set)):
            out[f'{key}.__kwdefaults__[{k}]'] = _summ(d)
    # functools caches
    ci = getattr(fn, 'cache_info', None)
    if ci:
        out[f'{key}.cache_info'] = repr(ci())


def digest(fp: dict) -> str:
    h = hashlib.blake2b(digest_size=8)
    for k in sorted(fp):
        h.update(k.encode())
        h.update(fp[k].encode())
    return h.hexdigest()


def moved(a: dict, b: dict):
    return sorted(k for k in set(a) | set(b) if a.get(k) != b.get(k))
