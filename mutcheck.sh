#!/bin/sh
# usage: mutcheck.sh <patch.diff> <ID[,ID..]> [tier]
# Applies a patch to a scratch copy of /repo (outside /repo and /verif), runs the 46 baseline tests
# and the given check(s) against the copy (evidence/replays go to <copy>/.verif-out), removes the copy.
set -u
P="$(readlink -f "$1")"; ID="$2"; TIER="${3:-quick}"
D=$(mktemp -d /dev/shm/frame-mut.XXXXXX)
rsync -a --exclude .git --exclude outputs --exclude doc /repo/ "$D"/
( cd "$D" && patch -p1 -s < "$P" ) || { echo "PATCH FAILED"; rm -rf "$D"; exit 3; }
if [ "${SKIP_TESTS:-0}" != 1 ]; then
  ( cd "$D" && PYTHONDONTWRITEBYTECODE=1 /venv/bin/python -m pytest -q -p no:cacheprovider --timeout=900 2>&1 | tail -1 )
fi
for id in $(echo "$ID" | tr ',' ' '); do
  /verif/check "$id" --tier "$TIER" --repo "$D" > "$D/.out" 2>&1; rc=$?
  grep -v '^WARNING' "$D/.out" | tail -${TAILN:-4}
  echo "rc($id)=$rc"
  if [ "${SHOW:-0}" = 1 ]; then cat "$D"/.verif-out/replays/*/1.json | head -60; fi
done
rm -rf "$D"
